#!/usr/bin/env python3
"""Regenerates /verif/MANIFEST.json from the table below and validates it against the schema."""
import json, subprocess, sys, os

ROOT = os.path.dirname(os.path.dirname(os.path.abspath(__file__)))

# id -> (level, technique, text, note, design_ref)
CLAIMED = {
    "C03": ("exploration",
            "deterministic simulation: seeded GC-decision schedules at every safepoint + poisoned/quarantined old arenas, transcript equality vs never-collect reference",
            "Each generated module (values of every heap-allocated kind incl. type values, records with heap defaults, namespaces, names computed at run time, keyword-only defaults; 1-3 evaluations on one Module, embedder set()/extra_value and embedder-triggered Evaluator::garbage_collect in between, optionally with one of six profilers enabled on the re-used evaluator and its profile collected at the end, final freeze) is run under 5-8 seeded GC decision sequences chosen at every safepoint the evaluator offers; every arena a collection leaves behind is poisoned (and usually quarantined) so a missed root is a deterministic failure; the transcript (incl. error text, host-side reads, frozen exports) must equal the never-collect run byte for byte. Seeded sampling of programs x schedules, not a proof.",
            "Trusts: collections only happen at PossibleGc safepoints (the decider hook performs the evaluator's own collection); the poison word makes any stale read fail or differ; generator bias is made visible by probes in the evidence.",
            "DESIGN.md §6 C03"),
    "C07": ("fault_enumeration",
            "deterministic simulation: failure-point enumeration over evaluation histories on one evaluator/module (f-th dynamic fault() invocation fails, natural and ill-typed failures), oracles on error location, call stack, prefix transcripts, probe program and evaluator re-use",
            "Histories of 2-7 evaluations (eval_module/eval_function) on one Module are replayed with the f-th dynamic fault() invocation failing for enumerated f (all of them when few, a seeded sample otherwise), plus naturally failing and ill-typed programs drawn from an extreme-value catalogue, calls into a frozen library module, and an enumeration mode that calls every global builtin and every method of 19 receiver values with 0-3 arguments from a 42-value extreme catalogue (all pairs of catalogue values as the two arguments of a callee in dedicated cases), each call its own evaluation on one evaluator, plus load statements that must fail (no loader, unknown module, unknown or private symbol). After every failure: no panic/crash, the error's span and call-stack locations lie inside an involved file on char boundaries, the failing transcript is a prefix of the fault-free one, call_stack_count()==0, an unrelated probe program gives the fresh-evaluator transcript, Module::names/get/freeze/load do not panic, and the rest of the history is identical with a re-used and with a fresh evaluator.",
            "The 'every builtin x every argument tuple' part of C07 is a pure-input dimension: it is covered by the bounded enumeration mode (arity <= 3 over a fixed catalogue), not exhaustively; what the simulation decides is the history/failure-point dimension. Reference for state after failure is the same history with a fresh evaluator per evaluation.",
            "DESIGN.md §6 C07"),
    "C12": ("fault_enumeration",
            "deterministic simulation: complete enumeration of the lock catalogue (container x construct x mutation x alias x exit-by-fault at iteration i) against a lock-count model and a never-iterated reference",
            "The finite catalogue container kind x iterating construct x mutating operation x alias x way of leaving (exhaustion, break, return, continue, injected fault / failing mutation / cancellation / tick budget / depth overflow / natural error at iteration i, failing eager consumer; host-side iteration from a native function with early drop) is enumerated completely by thorough (quick: a seeded eighth). While the construct is active the mutation must fail and leave the container intact; once it has been left - in the same evaluation or, after an error caught by the host, in the next evaluation on the same module - the mutation must succeed and give what it gives on a never-iterated container.",
            "Exhaustive within the stated catalogue only (about 17.7k cells); constructs or mutators outside the catalogue are not covered. The reference is the real implementation on a never-iterated container.",
            "DESIGN.md §6 C12"),
    "C15": ("fault_enumeration",
            "deterministic simulation with the evaluator tick counter as simulated clock: budgets enumerated around T and every 1000-tick boundary, cancellation injected at chosen tick positions through a per-tick hook, call-depth limit x depth sweeps on every call path",
            "For generated loop/call programs whose cost T is measured by a limit-free run (optionally after a prelude evaluation that shifts the 1000-tick phase), every budget in the boundary set must give error <=> cumulative ticks > budget, overshoot <= 1000, a prefix transcript, unchanged behaviour within the limit and a re-usable evaluator; cancellation raised at chosen tick positions (per-tick hook), at the n-th poll, or from inside the program must be honoured within 1000 ticks in the same evaluation, also when the request is raised again on a re-used evaluator after an earlier cancellation; for 16 recursion shapes x limits {1,2,3,5,10,50,200} all depths around the threshold must show a single threshold (also when the limit is configured again on an evaluator that has already evaluated something: refused or accepted, the maximum in force must be the one the embedder was told), StackOverflow as the error, the same threshold on all pure-def call paths, and unbounded recursion must never crash. Tick counts must be repeatable, linear in the bound of every kind of loop (for over list / dict / set / string elements, comprehensions incl. second clause and if, module-level loops, nested and unpacking loops) and count every call exactly once on each of 31 call paths (local defs, load()ed frozen defs, lambdas, fields named like builtin methods, builtin methods resolved at compile time, natives which call back: sorted / max with key=, map, filter, partial, a host native): ticks per iteration = loop + number of calls the expression makes; equal for a frozen and a local copy of the same function.",
            "T is measured, not assumed; the documented check interval (1000) is the only constant. Native-callback paths are only bounded (they may use several frames per level). check_tick_count_limit()'s result type is not exported, only its presence is checked.",
            "DESIGN.md §6 C15"),
    "C04": ("exploration",
            "deterministic simulation: freeze point chosen at any statement boundary (like a crash point), seeded attack histories from persistent / fresh / second-level importers, in-module pre-freeze observation as the reference model",
            "A generated exporter module is frozen after a seeded prefix of its statements (optionally with a collection forced at every safepoint). An observation program (string forms, content, hashes, slices, membership, equality with fresh equal values and empty literals at top level and inside defs, calls of side-effect-free exported functions incl. defs that read re-assigned globals, slice globals with variable bounds, copy globals and mutate the copies) run inside the module just before freezing is the model; the same observation through an importer after freezing must be identical. A seeded history of attacks (the mutation catalogue x every reachability path found by a depth-bounded walk: exports, elements, dict values, struct/record fields, tuple members, values returned by exported functions and by closures made by load()ed factories, re-exports of a frozen importer, host-side Value::set_at / set_attr) follows: every data-path mutation (methods, item / attribute / augmented assignment incl. += and |=, and their variants that would not change anything: existing key, empty argument, same value) must error, a copy must be mutable, and after every operation a fresh observer must still see the pre-freeze transcript.",
            "Sampling of modules x freeze points x attack histories. The observation program is itself Starlark (same implementation on both sides), so a bug that changes a value identically before and after freeze is not visible here.",
            "DESIGN.md §6 C04"),
    "C13": ("exploration",
            "deterministic simulation: seeded histories over a heap dependency graph with seeded drop order and OS-thread placement, poisoned + quarantined (or really re-used) arenas, content re-check after every operation",
            "Histories of up to 40 operations (build-and-freeze modules loading from live frozen modules - also pure re-export modules and heaps carrying equal names -, clone, owned handles incl. mapped ones and handles re-homed on a reference-only heap (OwnedFrozen::build), add_to_heap into new modules, import_public_symbols, Globals from frozen values directly or through a grouping FrozenHeap and with one-character names, modules on such Globals, from_globals, values kept by the host across freeze while source and frozen module are dropped, importers of scalars only, drop of any entity), each placed on one of 1-4 real OS threads and run to completion; every arena is poisoned at drop and quarantined (2/3) or really re-used through the per-thread chunk cache (1/3). After every operation every value reachable from every live entity is re-encoded and exported functions re-called; results must equal those recorded at creation.",
            "Only safe documented API is used. A forgotten heap edge is detected when the referenced heap is dropped while a dependant is still observed, which the drop-order search makes likely, not certain.",
            "DESIGN.md §6 C13"),
    "C11": ("exploration",
            "deterministic simulation of operation histories against a Vec model, with panics injected into user callbacks (Hash/Eq/Ord/closures) at the n-th invocation inside an operation; complete enumeration of short histories around the index threshold",
            "Operation histories over SmallMap (plain and pre-hashed API), SmallSet, OrderedMap/Set, SortedMap/Set/Vec, UnorderedMap/Set and Vec2 are executed against a Vec<(K,V)> model; keys carry simulator-chosen adversarial hashes so collisions are the norm; a panic is injected into Hash/Eq/Ord/retain/sort_by/or_insert_with/and_modify callbacks inside about one operation in nine and the container must then hold exactly what a plain Vec holds after the same interrupted operation (std Vec semantics: retain keeps the entries not yet visited and drops the one whose predicate panicked, sort keeps every entry); after every step every lookup by key, index and position for every key of the universe is compared. All histories up to length 4 (quick) / 5 (thorough) over a 20-operation alphabet on base maps of 15-18 entries are enumerated completely; random histories up to 220 operations cross the 16-entry threshold repeatedly; tracked values detect double drops and leaks; a second fault kind lets the n-th destructor call panic inside clear / truncate / retain of a Vec2 and inside SmallMap::clear, with the same operation on a plain Vec of pairs as the reference; a third one lets the n-th clone of a value panic inside Vec2::clone, SmallMap::clone and Vec2::extend (source untouched, nothing dropped twice, extend holds the old entries plus a prefix of the new).",
            "Exhaustive only inside the stated short-history sub-space; the rest is seeded sampling. After a panic inside Hash/Eq of a key during an insert the entry may or may not be present (both accepted), nothing else is relaxed.",
            "DESIGN.md §6 C11"),
    "C20": ("exploration",
            "deterministic simulation: seeded cooperative scheduler (random / PCT / few-preemption policies, recorded literal schedule) over real OS threads parked and released one at a time at scheduling points - hooked shared-state sites, every evaluator tick and every atomic operation of the /repo crates (atomics-only instrumented build) - plus the real chunk allocator sources under shuttle; poisoned chunks; sequential-schedule reference",
            "2-6 real OS threads run generated workloads over 1-3 shared frozen modules (load + call + hash + compare + repr + json, shared record/enum types, the same frozen call sites hit with receivers of different types per thread, build-freeze-drop of own modules, frozen modules sent to and dropped by another thread, cold-start processes); a thread runs only while it holds the baton, which is handed over at scheduling points: hooked sites in /repo (chunk ref-count inc/dec/dealloc, per-thread chunk cache, frozen-heap into_ref/drop/add_reference, lazy string hash, atomic cells of frozen defs, post_freeze, type ids), every evaluator tick, send/recv, and in half of the schedules every atomic operation executed by starlark / starlark_map / starlark_syntax (compiled a second time with TSan's atomics-only instrumentation; the simulator is the runtime). The schedule PRNG decides who runs; a failing schedule is re-expressed as the literal choice sequence and minimised. Every thread's transcript must equal the one it has under the run-to-completion schedule; no panic, debug assertion, chunk life-cycle assertion, deadlock or crash (freed chunks/arenas are poisoned). One case in five runs the real chunk allocator sources under shuttle with a tracking allocator.",
            "Interleavings are explored at the granularity of scheduling points: hooked sites, ticks and atomic operations (sequentially consistent; no weak-memory behaviours). A race on plain non-atomic memory is invisible unless it changes a result or trips an assertion at this granularity; there is no happens-before race detector (Miri cannot run the crate, real TSan would need an instrumented std). First-use races on process-wide lazies are explored only as 'who gets there first' (initialisers run without pre-emption).",
            "DESIGN.md §6 C20, §11.2"),
    "C14": ("exploration",
            "deterministic simulation with the process environment as the schedule: every entropy source (getrandom via LD_PRELOAD shim, address-space layout, thread, evaluation history) drawn from the seed, byte comparison of transcripts across child processes",
            "Batches of 24 generated 'observable everything' programs (print, repr/str of all value kinds incl. functions/types/bound methods, dir, hash, json, dict/set/struct iteration, failing tails with suggestions and call stacks, plus type-checker errors/interface/approximations and lints of the same file, did-you-mean suggestions with several equally near candidates, several undefined names, argument-binding errors listing names for defs and builtins, set algebra, ties in sorted/max/min, dir() of every kind of value, a never-called def with several type errors; after the evaluation the frozen module's names, documentation members and description in API order) run in 3 (quick) / 6 (thorough) child processes whose entropy is controlled: getrandom/getentropy stream (std RandomState keys), ASLR disabled and replaced by seeded mmap/malloc/env-padding noise, evaluation on main / 1st / n-th spawned thread, seeded program order and warm-up evaluations. All configurations must produce byte-identical transcripts per program; probes confirm the configurations really differed (std HashSet order, stack address).",
            "Covers the entropy sources listed; a source not behind one of these seams (e.g. a clock) would not be varied. The harness renders API results in the order returned.",
            "DESIGN.md §6 C14"),
    "C18": ("exploration",
            "deterministic simulation of a debugger client in lock-step with the evaluation thread (scripted requests, breakpoint changes, detach and late-request faults) plus all profiler / statement-hook configurations, compared with the uninstrumented transcript",
            "Generated programs with marker statements (module level, defs incl. type-annotated ones, loops left by break / continue, if-elif-else chains, augmented and unpacking assignments, comprehensions re-using a local's name, closures over re-assigned locals, lambdas and native callbacks, locals shadowing module variables, errors raised several frames deep) are run uninstrumented (reference), under each of the 13 ProfileModes followed by gen_profile, freeze and the retained-memory profile, under a counting statement hook (exactly one continued=false call per executed marker statement) and under the DAP adapter driven by a simulated client in lock-step with the evaluation thread: breakpoints on seeded subsets of marker lines incl. conditional / failing conditions and breakpoint-set changes at stops, requests at every stop (top_frame, stack_trace, scopes, variables, inspect_variable, evaluate incl. failing expressions), step Into/Over/Out, detach at a seeded stop, request after the evaluation ended (must return, not hang). Transcript, result and error text must equal the reference; the sequence of stops must equal the executed markers carrying a breakpoint; variables shown at a stop must equal what the marker then emits; under step-Into every executed marker is stopped at exactly once.",
            "Every step (Into / Over / Out, also in sessions mixing steps, continue and breakpoints) is checked against a statement trace recorded by a second statement hook: the stop must be the first statement after the previous stop which the step kind selects (over: call stack not deeper than at the request; out: shallower) or a breakpoint, and a step after which the program runs to its end must have had no candidate. Breakpoints on lines holding several statements (one-line if / for, `a = 1; b = 2`) stop once per execution of the statement the line starts with. One recorded defect (module-level statements announced twice to hooks/debugger) is modelled and reported as KNOWN-FINDING; any other deviation is a violation.",
            "DESIGN.md §6 C18"),
    "C19": ("exploration",
            "deterministic simulation of an LSP client over the in-memory transport plus a simulated file system with I/O faults behind LspContext; ground truth of name resolution obtained by running the generated documents (tagged bindings)",
            "The real server loop runs on its own thread over Connection::memory(); the simulated client opens 1-3 generated documents (nested defs / lambdas / comprehensions with several clauses / loops with deliberate shadowing, parameter defaults that read enclosing variables of the same name, load() between documents, non-ASCII and astral characters before identifiers, LF/CRLF), issues gotoDefinition / hover / completion at every identifier use and at seeded odd positions, changes a document valid -> invalid -> valid, closes, re-opens, queries closed and never-opened documents, opens, changes and closes a document that never parses, asks for definitions beyond the end of lines, and shuts down; the simulated file system injects resolver errors and unreadable / missing loaded files (the loaded document is open in the editor or exists on the simulated disk only); requests are also issued inside the load statement. Every request must get exactly one in-order response and shutdown must terminate (no hang, no panic); every range in every response and diagnostic must denote valid UTF-16 positions of the text it is based on; go-to-definition must answer a binding of the same name in the scope from which the running program actually read the variable (and nothing about another line when the cursor is beyond the end of a line) (each binding assigns a distinct tag, each use reports the tag it read); evaluation error spans must resolve to the line/character of the text.",
            "Message loss/reordering and malformed JSON are not injected. Two recorded defects about astral characters (outgoing columns are character counts) are modelled and reported as KNOWN-FINDING.",
            "DESIGN.md §6 C19"),
}

NOT_APPLICABLE = {
    "C01": "pure function of the program text (oracle would be CPython on the same text: differential testing); no schedule, clock, fault or interleaving to simulate",
    "C02": "equivalence of a program and its opacified rewrite is a pure function of the pair; nothing to schedule or inject",
    "C05": "parser totality is a pure function of input bytes x dialect flags (fuzzing/span checking), nothing to simulate",
    "C06": "tree shape and print/parse round trip are pure functions of the token sequence",
    "C08": "argument binding is a finite pure signature x call-shape table (exhaustive enumeration), no history or fault dimension",
    "C09": "coherence of ==/hash/order is a stateless relation over value tuples",
    "C10": "integer arithmetic is a pure function of operand tuples",
    "C16": "'value has type' is a pure predicate of (type expression, value); the check paths are pure functions to compare",
    "C17": "the checker is a pure function of the module text; its 'same diagnostics each time' clause is exercised inside C14's controlled-entropy runs, C17 itself is not claimed",
}

# Properties planned (DESIGN.md) but whose check is not built yet: listed as not claimed *yet*.
PENDING = {
}

def main():
    hooks_commits = subprocess.run(
        ["git", "-C", "/repo", "log", "--format=%H %s", "--grep=^verif hooks"],
        capture_output=True, text=True).stdout.strip().splitlines()
    checks = []
    for pid, (level, technique, text, note, ref) in sorted(CLAIMED.items()):
        checks.append({
            "property_id": pid,
            "quick_cmd": f"./check {pid} quick",
            "thorough_cmd": f"./check {pid} thorough",
            "evidence_file": f"/verif/evidence/{pid}.json",
            "replay_cmd_template": f"./check {pid} --replay {{path}}",
            "engine": "verif-sim",
            "level_claimed": {"category": level, "text": text, "design_ref": ref},
            "level_note": note,
            "technique": technique,
        })
    na = [{"property_id": k, "reason": v} for k, v in sorted({**NOT_APPLICABLE, **PENDING}.items())]
    baseline = json.load(open("/root/.vp/BASELINE.json"))["cmd"] if os.path.exists("/root/.vp/BASELINE.json") else ""
    m = {
        "version": 1,
        "setup_cmd": "cd /verif/sim && CARGO_NET_OFFLINE=true cargo build --release --offline && CARGO_NET_OFFLINE=true CARGO_TARGET_DIR=/verif/target/atomic RUSTC_WRAPPER=/verif/tools/rustc_atomic.sh cargo build --release --offline && (cd /verif/chunksim && cargo build --release --offline) && cc -shared -fPIC -O2 -o /verif/target/entropy_shim.so /verif/sim/shim/entropy_shim.c",
        "hooks": {
            "guard": "cargo feature `verif_hooks` of crate `starlark` (off by default; all hook code is #[cfg(feature = \"verif_hooks\")])",
            "enable": "the simulator crate /verif/sim depends on /repo/starlark by path with features = [\"verif_hooks\"]; every ./check rebuilds it from /repo's working tree",
            "baseline_off_cmd": "cd /repo && cargo nextest run --workspace --no-fail-fast --tool-config-file pb:/w/lib/nextest.toml --profile pb --test-threads 8 --offline || cargo test --workspace --no-fail-fast --offline",
            "source_commits": [l.split()[0] for l in hooks_commits],
            "add_only": True,
        },
        "engines": [{
            "name": "verif-sim",
            "path": "/verif/sim",
            "serves_properties": sorted(CLAIMED.keys()),
            "kind_free_text": "deterministic simulator: one seeded PRNG decides workload, fault plan and schedule of every run; real /repo code under hooks; worker child processes for crash containment; replay + minimisation",
        }],
        "checks": checks,
        "not_applicable": na,
        "notes": "See DESIGN.md. Exit codes: 0 held, 1 VIOLATION, 2 harness error. VERIF_SEED selects the batch (default fixed).",
    }
    out = os.path.join(ROOT, "MANIFEST.json")
    json.dump(m, open(out, "w"), indent=1)
    open(out, "a").write("\n")
    try:
        import jsonschema
        jsonschema.validate(m, json.load(open("/root/.vp/MANIFEST.schema.json")))
        print("MANIFEST.json valid;", len(checks), "checks,", len(na), "not applicable")
    except ImportError:
        print("jsonschema not available; not validated")

if __name__ == "__main__":
    main()
