#!/usr/bin/env python3
"""Merge our own confirmation and check results into /verif/seeded/<name>/meta.json.
usage: seed_meta.py <name> <property> <confirm-log> [note]"""
import json, sys, os, re, glob
name, prop, conflog = sys.argv[1:4]
note = sys.argv[4] if len(sys.argv) > 4 else ""
d = f"/verif/seeded/{name}"
meta = {}
if os.path.exists(f"{d}/meta.json"):
    try: meta = json.load(open(f"{d}/meta.json"))
    except Exception: meta = {}
meta.setdefault("property", prop)
# confirmation
conf = {}
if os.path.exists(conflog):
    txt = open(conflog).read()
    m = re.search(r"CONFIRM seed=\S*" + re.escape(name) + r"\n((?:  .*\n)+)", txt)
    if m:
        for line in m.group(1).splitlines():
            if ":" in line:
                k, v = line.strip().split(":", 1)
                conf[k.strip()] = v.strip()
meta["confirmed_by_us"] = conf
# check results
checks = []
for log in sorted(glob.glob(f"{d}/check_*.log")):
    t = open(log).read()
    res = re.findall(r"MUTANT-RESULT slot=\S+ id=(\S+) exit=(\d+)", t)
    viol = re.findall(r"class=(\S+) key=(\S+)", t)
    ev = re.findall(r"evaluations=(\d+) distinct_nontrivial=\d+ violations=(\d+)", t)
    for (cid, ex) in res:
        checks.append({"check": cid, "tier": os.path.basename(log)[6:-4], "exit": int(ex), "detected": ex == "1",
                       "violation_classes": sorted(set(f"{c}|{k}" for c, k in viol))[:6],
                       "evaluations": int(ev[0][0]) if ev else None, "violating_runs": int(ev[0][1]) if ev else None})
meta["what_we_ran"] = {
    "confirm": "tools/confirm_seed.sh <scratch worktree> <seed dir> <demo name> : existing `cargo test -p starlark --lib` with the patch, demo with the patch (fails), demo without (passes)",
    "check": f"tools/mutant.sh <slot> seeded/{name}/patch.diff {prop} quick  (scratch worktree of /repo HEAD + patch, simulator rebuilt against it)",
    "results": checks,
}
if note: meta["note"] = note
json.dump(meta, open(f"{d}/meta.json", "w"), indent=1)
print(name, "detected" if any(c["detected"] for c in checks) else "NOT DETECTED", [c["violation_classes"][:2] for c in checks])
