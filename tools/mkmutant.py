#!/usr/bin/env python3
"""mkmutant.py <name> <file-relative-to-repo> <old> <new>  -> writes /verif/mutants/<name>.diff (uses a scratch worktree)."""
import subprocess, sys, os
WT = "/tmp/vmut/mk/wt"
def sh(*a, **k): return subprocess.run(a, capture_output=True, text=True, **k)
if not os.path.isdir(WT):
    os.makedirs("/tmp/vmut/mk", exist_ok=True)
    sh("git", "-C", "/repo", "worktree", "add", "--detach", WT, "HEAD")
sh("git", "-C", WT, "checkout", "-q", "--detach", sh("git", "-C", "/repo", "rev-parse", "HEAD").stdout.strip())
sh("git", "-C", WT, "checkout", "--", ".")
name, path, old, new = sys.argv[1:5]
p = os.path.join(WT, path)
s = open(p).read()
if s.count(old) != 1:
    print("ERROR: pattern occurs", s.count(old), "times"); sys.exit(1)
open(p, "w").write(s.replace(old, new))
d = sh("git", "-C", WT, "diff").stdout
open(f"/verif/mutants/{name}.diff", "w").write(d)
sh("git", "-C", WT, "checkout", "--", ".")
print("wrote", f"/verif/mutants/{name}.diff", len(d.splitlines()), "lines")
