#!/bin/bash
# Confirm a seeded change independently: (1) with the patch the existing starlark lib tests pass
# and the demonstration fails; (2) without the patch the demonstration passes.
# usage: confirm_seed.sh <worktree> <seed-dir> <modname> [unit|integ]
#   unit : demo.rs is a unit-test module for starlark/src/tests (default)
#   integ: demo.rs is an integration test for <crate>/tests/<modname>.rs
#   crateunit: demo.rs is a #[cfg(test)] module of <crate>/src/lib.rs
set -u
WT="$1"; SD="$2"; MOD="$3"; MODE="${4:-unit}"; CRATE="${5:-starlark}"
cd "$WT" || exit 2
place_demo() {
  if [ "$MODE" = "integ" ]; then mkdir -p $CRATE/tests; cp "$SD/demo.rs" $CRATE/tests/$MOD.rs;
  elif [ "$MODE" = "crateunit" ]; then cp "$SD/demo.rs" $CRATE/src/$MOD.rs; printf '#[cfg(test)]\nmod %s;\n' "$MOD" >> $CRATE/src/lib.rs; else cp "$SD/demo.rs" starlark/src/tests/$MOD.rs; echo "mod $MOD;" >> starlark/src/tests.rs; fi
}
run_demo() {
  if [ "$MODE" = "integ" ]; then cargo test -p $CRATE --test $MOD --offline -j 8;
  elif [ "$MODE" = "crateunit" ]; then cargo test -p $CRATE --lib --offline -j 8 $MOD; else cargo test -p starlark --lib --offline -j 8 $MOD; fi
}
git checkout -q -- . ; git clean -fdq -e target
git apply "$SD/patch.diff" || { echo "CONFIRM patch does not apply"; exit 2; }
if [ "${SKIP_SUITE:-0}" != "1" ] || [ ! -f "$SD/confirm_patched_suite.log" ]; then
cargo test -p starlark --lib --offline -j 8 > "$SD/confirm_patched_suite.log" 2>&1
if [ "$CRATE" != "starlark" ]; then cargo test -p $CRATE --offline -j 8 >> "$SD/confirm_patched_suite.log" 2>&1; fi
fi
SUITE=$(grep -E "^test result" "$SD/confirm_patched_suite.log" | tr '\n' ' ')
place_demo
run_demo > "$SD/confirm_patched_demo.log" 2>&1
PDEMO=$(grep -E "^test result" "$SD/confirm_patched_demo.log" | tail -1)
git checkout -q -- . ; git clean -fdq -e target
place_demo
run_demo > "$SD/confirm_clean_demo.log" 2>&1
CDEMO=$(grep -E "^test result" "$SD/confirm_clean_demo.log" | tail -1)
git checkout -q -- . ; git clean -fdq -e target
echo "CONFIRM seed=$SD"
echo "  existing lib tests with patch: $SUITE"
echo "  demo with patch:    $PDEMO"
echo "  demo without patch: $CDEMO"
