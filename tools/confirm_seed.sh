#!/bin/bash
# Confirm a seeded change independently: (1) with the patch the existing starlark lib tests pass
# and the demonstration fails; (2) without the patch the demonstration passes.
# usage: confirm_seed.sh <worktree> <seed-dir> <modname>    (demo.rs is a unit-test module for starlark/src/tests)
set -u
WT="$1"; SD="$2"; MOD="$3"
cd "$WT" || exit 2
git checkout -q -- . ; git clean -fdq -e target
git apply "$SD/patch.diff" || { echo "CONFIRM patch does not apply"; exit 2; }
cp "$SD/demo.rs" starlark/src/tests/$MOD.rs
echo "mod $MOD;" >> starlark/src/tests.rs
cargo test -p starlark --lib --offline -j 8 > "$SD/confirm_patched.log" 2>&1
PATCHED_SUMMARY=$(grep -E "^test result" "$SD/confirm_patched.log" | tail -1)
FAILED=$(grep -E "^test .* FAILED" "$SD/confirm_patched.log" | sed 's/^test //; s/ \.\.\. FAILED//' | tr '\n' ' ')
NONDEMO_FAILED=$(grep -E "^test .* FAILED" "$SD/confirm_patched.log" | grep -v "$MOD" | wc -l)
git checkout -q -- . 2>/dev/null
cp "$SD/demo.rs" starlark/src/tests/$MOD.rs
echo "mod $MOD;" >> starlark/src/tests.rs
cargo test -p starlark --lib --offline -j 8 $MOD > "$SD/confirm_clean.log" 2>&1
CLEAN_SUMMARY=$(grep -E "^test result" "$SD/confirm_clean.log" | tail -1)
git checkout -q -- . ; git clean -fdq -e target
echo "CONFIRM seed=$SD"
echo "  patched: $PATCHED_SUMMARY"
echo "  patched failures: $FAILED"
echo "  patched non-demo failures: $NONDEMO_FAILED"
echo "  clean (demo only): $CLEAN_SUMMARY"
