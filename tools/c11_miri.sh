#!/bin/bash
# C11 under Miri (thorough tier): the seeded operation histories of the C11 world, cut to 40
# operations, executed by Miri so that undefined behaviour in starlark_map's unsafe code
# (Vec2, sorting, hash index) is detected even when it does not change a result.
# usage: c11_miri.sh <seed> <processes> <cases per process> [evidence.json to merge into]
#        c11_miri.sh --replay <replay.json>
# Stacked Borrows is switched off: the aliasing model is experimental and starlark_map's
# `slice.as_ptr()` / `slice.as_mut_ptr()` pairs violate it without any effect on behaviour;
# everything else (bounds, dangling, uninitialised, invalid values, alignment) stays checked.
set -u
export CARGO_NET_OFFLINE=true
export MIRIFLAGS="-Zmiri-disable-stacked-borrows"
ROOT="$(cd "$(dirname "$0")/.." && pwd)"
OUT="${VERIF_OUT_DIR:-/verif}"
TGT="${CARGO_TARGET_DIR:-/verif/target}/c11miri"
cd "$ROOT/c11miri" || exit 2
if [ "${1:-}" = "--replay" ]; then
  F="${2:?replay file}"
  SEED=$(python3 -c "import json,sys;print(json.load(open(sys.argv[1]))['seed'])" "$F")
  IDX=$(python3 -c "import json,sys;print(json.load(open(sys.argv[1]))['index'])" "$F")
  CARGO_TARGET_DIR="$TGT" cargo +nightly miri run --offline -- "$SEED" "$IDX" 1 > "$TGT/replay.log" 2>&1
  if grep -q "^MIRI-OK" "$TGT/replay.log"; then echo "replay: no violation reproduced"; exit 0; fi
  grep -E "^MIRI-VIOLATION|Undefined Behavior|^error" "$TGT/replay.log" | head -5
  echo "VIOLATION property=C11 replay=$F"
  exit 1
fi
SEED="${1:-20260923}"; PROCS="${2:-16}"; PER="${3:-12}"; EVID="${4:-}"
mkdir -p "$TGT/logs"
# Build once (this also builds the Miri sysroot on first use).
if ! CARGO_TARGET_DIR="$TGT" cargo +nightly miri run --offline -- "$SEED" 6400 0 > "$TGT/logs/build.log" 2>&1; then
  tail -20 "$TGT/logs/build.log" >&2
  echo "HARNESS-ERROR cannot build the C11 world under Miri" >&2
  exit 2
fi
START=$(date +%s)
pids=()
for p in $(seq 0 $((PROCS - 1))); do
  FIRST=$((6400 + p * PER))
  ( CARGO_TARGET_DIR="$TGT" cargo +nightly miri run --offline -- "$SEED" "$FIRST" "$PER" > "$TGT/logs/p$p.log" 2>&1 ) &
  pids+=($!)
done
for pid in "${pids[@]}"; do wait "$pid"; done
END=$(date +%s)
rc=0; cases=0; viol=0
mkdir -p "$OUT/replays/C11"
for p in $(seq 0 $((PROCS - 1))); do
  L="$TGT/logs/p$p.log"
  n=$(grep -c "^MIRI-START" "$L")
  if grep -q "^MIRI-OK" "$L"; then cases=$((cases + n)); continue; fi
  cases=$((cases + n))
  IDX=$(grep "^MIRI-START" "$L" | tail -1 | sed 's/.*index=\([0-9]*\).*/\1/')
  WHAT=$(grep -E "^MIRI-VIOLATION|Undefined Behavior|^error: " "$L" | head -1 | cut -c1-300)
  if [ -z "$IDX" ]; then echo "HARNESS-ERROR Miri process $p failed before running a case: $(tail -3 "$L" | tr '\n' ' ')" >&2; rc=2; continue; fi
  F="$OUT/replays/C11/miri-$SEED-$IDX.json"
  python3 - "$F" "$SEED" "$IDX" "$WHAT" <<'PY'
import json,sys
json.dump({"property":"C11","engine":"miri","seed":int(sys.argv[2]),"index":int(sys.argv[3]),"expected":sys.argv[4],
           "how":"tools/c11_miri.sh --replay <this file>  (./check C11 --replay <this file> does the same)"}, open(sys.argv[1],"w"), indent=1)
PY
  echo "VIOLATION property=C11 replay=$F"
  echo "  class=miri detail=$WHAT"
  viol=$((viol + 1)); [ $rc -eq 0 ] && rc=1
done
echo "[C11/miri] seed=$SEED cases=$cases violations=$viol wall=$((END - START))s"
if [ -n "$EVID" ] && [ -f "$EVID" ]; then
  python3 - "$EVID" "$SEED" "$cases" "$viol" "$((END - START))" <<'PY'
import json,sys
p=sys.argv[1]; e=json.load(open(p))
e.setdefault("coverage",{})["miri"]={"seed":int(sys.argv[2]),"cases_executed_under_miri":int(sys.argv[3]),"violations":int(sys.argv[4]),"wall_s":int(sys.argv[5]),
  "what":"seeded C11 histories (SmallMap plain / pre-hashed API, SmallSet, Ordered*, Sorted*, Unordered*, Vec2; callbacks with injected panics) cut to 40 operations, executed by Miri (nightly) with the same Vec model as oracle",
  "flags":"-Zmiri-disable-stacked-borrows (the experimental aliasing model is not part of the property; bounds, dangling pointers, uninitialised memory, invalid values and alignment are checked)"}
json.dump(e,open(p,"w"),indent=1)
PY
fi
exit $rc
