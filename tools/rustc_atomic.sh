#!/bin/sh
# RUSTC_WRAPPER for the atomics-instrumented build of the simulator (C20): the /repo library crates
# are compiled with ThreadSanitizer instrumentation restricted to atomic operations, without the
# TSan runtime (the simulator provides the __tsan_atomic* entry points, sim/src/atomrt.rs).
# Everything else is compiled as usual. -Z flags on the stable compiler need RUSTC_BOOTSTRAP=1,
# which is set for those crates only.
case "$CARGO_PKG_NAME" in
  starlark|starlark_map|starlark_syntax)
    case " $* " in
      *" --crate-name build_script_build "*) exec "$@" ;;
    esac
    RUSTC_BOOTSTRAP=1 exec "$@" -Zsanitizer=thread -Zexternal-clangrt -Cunsafe-allow-abi-mismatch=sanitizer \
      -Cllvm-args=-tsan-instrument-memory-accesses=0 -Cllvm-args=-tsan-instrument-func-entry-exit=0 \
      -Cllvm-args=-tsan-instrument-memintrinsics=0 ;;
  *)
    exec "$@" -Cunsafe-allow-abi-mismatch=sanitizer ;;
esac
