#!/bin/bash
# Run checks against a scratch worktree of /repo with a patch applied (sensitivity testing).
# usage: tools/mutant.sh <slot> <patch.diff|-> <ID>[,<ID>...] [quick|thorough]
# Slot = name of a persistent scratch area under /tmp/vmut (worktree + target dir reused so only
# changed crates rebuild). Nothing is written under /repo or /verif. Remove with: tools/mutant.sh <slot> --clean
set -u
SLOT="${1:?slot}"; PATCH="${2:?patch}"; IDS="${3:-}"; TIER="${4:-quick}"
BASE=/tmp/vmut/$SLOT
WT=$BASE/wt
if [ "$PATCH" = "--clean" ]; then
  git -C /repo worktree remove --force "$WT" 2>/dev/null
  rm -rf "$BASE"; git -C /repo worktree prune; exit 0
fi
mkdir -p "$BASE/out"
if [ ! -d "$WT" ]; then
  git -C /repo worktree add --detach "$WT" HEAD >/dev/null 2>&1 || { echo "cannot create worktree"; exit 2; }
fi
git -C "$WT" checkout -q --detach "$(git -C /repo rev-parse HEAD)" 2>/dev/null
git -C "$WT" checkout -q -- . ; git -C "$WT" clean -fdq -e target
[ "$PATCH" != "-" ] && PATCH="$(readlink -f "$PATCH")"
if [ "$PATCH" != "-" ]; then
  git -C "$WT" apply "$PATCH" || { echo "patch does not apply"; exit 2; }
fi
rm -rf "$BASE/sim"; mkdir -p "$BASE/sim"
cp -r /verif/sim/src /verif/sim/Cargo.toml /verif/sim/Cargo.lock "$BASE/sim/"
[ -d /verif/sim/shim ] && cp -r /verif/sim/shim "$BASE/sim/"
[ -f /verif/sim/build.rs ] && cp /verif/sim/build.rs "$BASE/sim/"
sed -i "s#\"/repo/#\"$WT/#g" "$BASE/sim/Cargo.toml"
mkdir -p "$BASE/sim/.cargo"
printf '[net]\noffline = true\n[build]\ntarget-dir = "%s/target"\n' "$BASE" > "$BASE/sim/.cargo/config.toml"
( cd "$BASE/sim" && CARGO_NET_OFFLINE=true cargo build --release --offline > "$BASE/build.log" 2>&1 ) || { tail -30 "$BASE/build.log"; echo "MUTANT-BUILD-FAILED"; git -C "$WT" checkout -q -- .; exit 3; }
cc -shared -fPIC -O2 -o "$BASE/target/entropy_shim.so" /verif/sim/shim/entropy_shim.c
rm -rf "$BASE/chunksim"; mkdir -p "$BASE/chunksim/.cargo"
cp -r /verif/chunksim/src /verif/chunksim/Cargo.toml /verif/chunksim/Cargo.lock /verif/chunksim/build.rs "$BASE/chunksim/"
sed -i "s#\"/repo/#\"$WT/#g" "$BASE/chunksim/Cargo.toml"
printf '[net]\noffline = true\n[build]\ntarget-dir = "%s/target"\n' "$BASE" > "$BASE/chunksim/.cargo/config.toml"
( cd "$BASE/chunksim" && CHUNKSIM_REPO="$WT" CARGO_NET_OFFLINE=true cargo build --release --offline >> "$BASE/build.log" 2>&1 ) || { tail -30 "$BASE/build.log"; echo "MUTANT-BUILD-FAILED (chunksim)"; }
rc=0
for ID in ${IDS//,/ }; do
  SIMBIN="$BASE/target/release/verif-sim"
  if [ "$ID" = "C20" ]; then
    ( cd "$BASE/sim" && CARGO_TARGET_DIR="$BASE/target/atomic" RUSTC_WRAPPER=/verif/tools/rustc_atomic.sh CARGO_NET_OFFLINE=true cargo build --release --offline >> "$BASE/build.log" 2>&1 ) || { tail -30 "$BASE/build.log"; echo "MUTANT-BUILD-FAILED (atomic)"; }
    ln -sf "$BASE/target/release/verif-chunksim" "$BASE/target/atomic/release/verif-chunksim"
    SIMBIN="$BASE/target/atomic/release/verif-sim"
  fi
  VERIF_OUT_DIR="$BASE/out" "$SIMBIN" run "$ID" "$TIER"
  r=$?; echo "MUTANT-RESULT slot=$SLOT id=$ID exit=$r"
  [ $r -ne 0 ] && rc=$r
done
git -C "$WT" checkout -q -- . ; git -C "$WT" clean -fdq -e target
exit $rc
