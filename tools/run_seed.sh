#!/bin/bash
# Run the check(s) of a property against a seeded change and file the result under /verif/seeded/<name>/.
# usage: run_seed.sh <slot> <seed-out-dir> <name> <ID> [tier]
set -u
SLOT="$1"; SD="$2"; NAME="$3"; ID="$4"; TIER="${5:-quick}"
DEST=/verif/seeded/$NAME
mkdir -p "$DEST"
cp "$SD/patch.diff" "$DEST/patch.diff"
for f in demo.rs demo.star meta.json; do [ -f "$SD/$f" ] && cp "$SD/$f" "$DEST/$f"; done
/verif/tools/mutant.sh "$SLOT" "$DEST/patch.diff" "$ID" "$TIER" > "$DEST/check_$TIER.log" 2>&1
grep -E "VIOLATION|class=|MUTANT-RESULT|evaluations=|patch does not apply|MUTANT-BUILD-FAILED" "$DEST/check_$TIER.log" | head -12
