#!/usr/bin/env python3
import json, sys, glob, jsonschema
schema = json.load(open("/root/.vp/EVIDENCE.schema.json"))
ok = True
for f in sorted(glob.glob("/verif/evidence/*.json")):
    try:
        jsonschema.validate(json.load(open(f)), schema)
        print("ok  ", f)
    except Exception as e:
        ok = False
        print("FAIL", f, str(e)[:300])
sys.exit(0 if ok else 1)
