//! The C11 world (seeded operation histories over the starlark_map containers against a Vec
//! model, with panics injected into user callbacks) executed under Miri: the same cases and the
//! same oracle, shortened to fit the interpreter's speed, plus Miri's detection of undefined
//! behaviour in the containers' unsafe code (out-of-bounds / dangling / uninitialised reads,
//! invalid values, misaligned accesses, data left behind by an unwinding callback).
//!
//! usage: cargo +nightly miri run -- <seed> <first index> <count>
//! Indices below 6400 are cells of the exhaustive sub-space (run with one free letter), the
//! others are seeded histories cut to 40 operations.

#![allow(dead_code)]

#[path = "../../sim/src/core.rs"]
mod core;
#[path = "../../sim/src/rng.rs"]
mod rng;
mod worlds {
    #[path = "../../../sim/src/worlds/c11.rs"]
    pub mod c11;
}

use serde_json::json;

use crate::core::Tier;
use crate::core::World;

const MAX_OPS: usize = 40;

fn main() {
    let args: Vec<String> = std::env::args().collect();
    let seed: u64 = args.get(1).and_then(|s| s.parse().ok()).unwrap_or(20260923);
    let first: u64 = args.get(2).and_then(|s| s.parse().ok()).unwrap_or(0);
    let count: u64 = args.get(3).and_then(|s| s.parse().ok()).unwrap_or(1);
    core::install_panic_hook();
    let w = worlds::c11::C11;
    let mut done = 0u64;
    for i in first..first + count {
        let mut case = w.generate(seed, i, Tier::Quick);
        // Shorten.
        if case["kind"] == "exhaustive" {
            case["depth"] = json!(1);
        } else if case["kind"] == "small_map" {
            if let Some(ops) = case["ops"].as_array_mut() {
                ops.truncate(MAX_OPS);
            }
        } else if let Some(n) = case["n"].as_u64() {
            case["n"] = json!(n.min(MAX_OPS as u64));
        }
        println!("MIRI-START index={i} kind={}", case["kind"].as_str().unwrap_or(""));
        let o = w.execute(&case);
        done += 1;
        if let Some(v) = &o.violation {
            println!("MIRI-VIOLATION index={i} class={} key={} detail={}", v.class, v.key, v.detail.lines().next().unwrap_or(""));
            std::process::exit(1);
        }
    }
    println!("MIRI-OK seed={seed} first={first} count={done}");
}
