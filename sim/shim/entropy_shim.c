/* Entropy seam for C14: every byte the process obtains from getrandom()/getentropy()
 * (std's RandomState keys, the `rand`/`getrandom` crates) becomes a pure function of the
 * environment variable VERIF_ENTROPY. Loaded with LD_PRELOAD by the simulator only. */
#define _GNU_SOURCE
#include <stddef.h>
#include <stdint.h>
#include <stdlib.h>
#include <sys/types.h>
#include <errno.h>

static uint64_t state;
static int inited;

static uint64_t next(void) {
    if (!inited) {
        const char *e = getenv("VERIF_ENTROPY");
        state = e ? strtoull(e, NULL, 10) : 0x1234567ULL;
        inited = 1;
    }
    state += 0x9E3779B97F4A7C15ULL;
    uint64_t z = state;
    z = (z ^ (z >> 30)) * 0xBF58476D1CE4E5B9ULL;
    z = (z ^ (z >> 27)) * 0x94D049BB133111EBULL;
    return z ^ (z >> 31);
}

static void fill(void *buf, size_t len) {
    unsigned char *p = (unsigned char *)buf;
    size_t i = 0;
    while (i < len) {
        uint64_t v = next();
        for (int k = 0; k < 8 && i < len; k++, i++) {
            p[i] = (unsigned char)(v >> (8 * k));
        }
    }
}

ssize_t getrandom(void *buf, size_t buflen, unsigned int flags) {
    (void)flags;
    fill(buf, buflen);
    return (ssize_t)buflen;
}

int getentropy(void *buf, size_t buflen) {
    if (buflen > 256) {
        errno = EIO;
        return -1;
    }
    fill(buf, buflen);
    return 0;
}
