//! Atomics-only runtime with the ThreadSanitizer ABI.
//!
//! For C20 the `/repo` crates are compiled a second time with `-Zsanitizer=thread` restricted
//! to atomic operations (no memory-access instrumentation, no function entry/exit, and *without*
//! the TSan runtime: `-Zexternal-clangrt`). Every atomic operation in those crates - including
//! std's generic code instantiated in them (`Arc`, `OnceLock` fast paths, `Mutex` fast paths) -
//! then becomes a call to one of the functions below. Each passes a scheduling point
//! (`Site::AtomicOp`) and then performs the operation, sequentially consistent. A change that
//! replaces one atomic read-modify-write by two operations, or adds a new shared atomic cache, is
//! thereby given scheduling points inside its window without any hand-placed hook.
//!
//! In the ordinary build nothing calls these functions.

use std::cell::Cell;
use std::sync::atomic::AtomicBool;
use std::sync::atomic::AtomicU64;
use std::sync::atomic::Ordering;

use starlark::verif_hooks;

thread_local! {
    static IN_POINT: Cell<bool> = const { Cell::new(false) };
}

static POINTS: AtomicU64 = AtomicU64::new(0);
static ENABLED: AtomicBool = AtomicBool::new(false);

/// Number of instrumented atomic operations executed so far in this process
/// (zero for ever in a binary that was not built with the instrumentation).
pub fn points() -> u64 {
    POINTS.load(Ordering::Relaxed)
}

/// Turn the scheduling points at atomic operations on or off (process-wide).
pub fn enable(on: bool) {
    ENABLED.store(on, Ordering::SeqCst);
}

#[inline]
fn point() {
    POINTS.fetch_add(1, Ordering::Relaxed);
    if !ENABLED.load(Ordering::Relaxed) {
        return;
    }
    // The hook dispatch itself executes instrumented atomics (e.g. the load of the installed hook).
    let _ = IN_POINT.try_with(|f| {
        if f.get() {
            return;
        }
        f.set(true);
        verif_hooks::sched_point(verif_hooks::Site::AtomicOp);
        f.set(false);
    });
}

const SC: Ordering = Ordering::SeqCst;

macro_rules! tsan_atomics {
    ($t:ty, $at:ty, $load:ident, $store:ident, $xchg:ident, $add:ident, $sub:ident, $and:ident, $or:ident, $xor:ident, $nand:ident, $casv:ident, $cass:ident, $casw:ident) => {
        #[unsafe(no_mangle)]
        pub unsafe extern "C" fn $load(a: *const $t, _mo: i32) -> $t {
            point();
            unsafe { (*(a as *const $at)).load(SC) }
        }
        #[unsafe(no_mangle)]
        pub unsafe extern "C" fn $store(a: *mut $t, v: $t, _mo: i32) {
            point();
            unsafe { (*(a as *const $at)).store(v, SC) }
        }
        #[unsafe(no_mangle)]
        pub unsafe extern "C" fn $xchg(a: *mut $t, v: $t, _mo: i32) -> $t {
            point();
            unsafe { (*(a as *const $at)).swap(v, SC) }
        }
        #[unsafe(no_mangle)]
        pub unsafe extern "C" fn $add(a: *mut $t, v: $t, _mo: i32) -> $t {
            point();
            unsafe { (*(a as *const $at)).fetch_add(v, SC) }
        }
        #[unsafe(no_mangle)]
        pub unsafe extern "C" fn $sub(a: *mut $t, v: $t, _mo: i32) -> $t {
            point();
            unsafe { (*(a as *const $at)).fetch_sub(v, SC) }
        }
        #[unsafe(no_mangle)]
        pub unsafe extern "C" fn $and(a: *mut $t, v: $t, _mo: i32) -> $t {
            point();
            unsafe { (*(a as *const $at)).fetch_and(v, SC) }
        }
        #[unsafe(no_mangle)]
        pub unsafe extern "C" fn $or(a: *mut $t, v: $t, _mo: i32) -> $t {
            point();
            unsafe { (*(a as *const $at)).fetch_or(v, SC) }
        }
        #[unsafe(no_mangle)]
        pub unsafe extern "C" fn $xor(a: *mut $t, v: $t, _mo: i32) -> $t {
            point();
            unsafe { (*(a as *const $at)).fetch_xor(v, SC) }
        }
        #[unsafe(no_mangle)]
        pub unsafe extern "C" fn $nand(a: *mut $t, v: $t, _mo: i32) -> $t {
            point();
            unsafe { (*(a as *const $at)).fetch_nand(v, SC) }
        }
        #[unsafe(no_mangle)]
        pub unsafe extern "C" fn $casv(a: *mut $t, c: $t, v: $t, _mo: i32, _fmo: i32) -> $t {
            point();
            match unsafe { (*(a as *const $at)).compare_exchange(c, v, SC, SC) } {
                Ok(x) => x,
                Err(x) => x,
            }
        }
        #[unsafe(no_mangle)]
        pub unsafe extern "C" fn $cass(a: *mut $t, c: *mut $t, v: $t, _mo: i32, _fmo: i32) -> i32 {
            point();
            unsafe {
                match (*(a as *const $at)).compare_exchange(*c, v, SC, SC) {
                    Ok(_) => 1,
                    Err(x) => {
                        *c = x;
                        0
                    }
                }
            }
        }
        #[unsafe(no_mangle)]
        pub unsafe extern "C" fn $casw(a: *mut $t, c: *mut $t, v: $t, _mo: i32, _fmo: i32) -> i32 {
            point();
            unsafe {
                match (*(a as *const $at)).compare_exchange(*c, v, SC, SC) {
                    Ok(_) => 1,
                    Err(x) => {
                        *c = x;
                        0
                    }
                }
            }
        }
    };
}

tsan_atomics!(u8, std::sync::atomic::AtomicU8, __tsan_atomic8_load, __tsan_atomic8_store, __tsan_atomic8_exchange, __tsan_atomic8_fetch_add, __tsan_atomic8_fetch_sub, __tsan_atomic8_fetch_and, __tsan_atomic8_fetch_or, __tsan_atomic8_fetch_xor, __tsan_atomic8_fetch_nand, __tsan_atomic8_compare_exchange_val, __tsan_atomic8_compare_exchange_strong, __tsan_atomic8_compare_exchange_weak);
tsan_atomics!(u16, std::sync::atomic::AtomicU16, __tsan_atomic16_load, __tsan_atomic16_store, __tsan_atomic16_exchange, __tsan_atomic16_fetch_add, __tsan_atomic16_fetch_sub, __tsan_atomic16_fetch_and, __tsan_atomic16_fetch_or, __tsan_atomic16_fetch_xor, __tsan_atomic16_fetch_nand, __tsan_atomic16_compare_exchange_val, __tsan_atomic16_compare_exchange_strong, __tsan_atomic16_compare_exchange_weak);
tsan_atomics!(u32, std::sync::atomic::AtomicU32, __tsan_atomic32_load, __tsan_atomic32_store, __tsan_atomic32_exchange, __tsan_atomic32_fetch_add, __tsan_atomic32_fetch_sub, __tsan_atomic32_fetch_and, __tsan_atomic32_fetch_or, __tsan_atomic32_fetch_xor, __tsan_atomic32_fetch_nand, __tsan_atomic32_compare_exchange_val, __tsan_atomic32_compare_exchange_strong, __tsan_atomic32_compare_exchange_weak);
tsan_atomics!(u64, std::sync::atomic::AtomicU64, __tsan_atomic64_load, __tsan_atomic64_store, __tsan_atomic64_exchange, __tsan_atomic64_fetch_add, __tsan_atomic64_fetch_sub, __tsan_atomic64_fetch_and, __tsan_atomic64_fetch_or, __tsan_atomic64_fetch_xor, __tsan_atomic64_fetch_nand, __tsan_atomic64_compare_exchange_val, __tsan_atomic64_compare_exchange_strong, __tsan_atomic64_compare_exchange_weak);

#[unsafe(no_mangle)]
pub extern "C" fn __tsan_init() {}

#[unsafe(no_mangle)]
pub extern "C" fn __tsan_atomic_thread_fence(_mo: i32) {
    std::sync::atomic::fence(SC);
}

#[unsafe(no_mangle)]
pub extern "C" fn __tsan_atomic_signal_fence(_mo: i32) {
    std::sync::atomic::compiler_fence(SC);
}
