//! C04 — freezing preserves every value and makes it permanently immutable.
//!
//! Freezing is treated like a crash point: the simulator freezes a generated exporter module
//! after an arbitrary prefix of its statements (optionally with collections forced at every
//! safepoint before). The pre-freeze model is an observation program run *inside* the module
//! just before freezing; the same observation run by an importer after freezing must give the
//! same transcript. Then a seeded history of attacks is run from importing modules: the whole
//! mutation catalogue applied at every reachability path (exports, elements, dict values,
//! struct/record fields, tuple members, values returned by exported functions, second-level
//! re-exports). Every data-path mutation must fail, and after *every* operation a fresh
//! observer importer must still see the pre-freeze transcript.

use serde_json::Value as Json;
use serde_json::json;
use starlark::environment::FrozenModule;
use starlark::environment::Module;
use starlark::eval::Evaluator;
use starlark::verif_hooks;
use starlark::verif_hooks::GcDecision;

use crate::core::*;
use crate::genprog::Features;
use crate::genprog::gen_module;
use crate::kit;
use crate::rng::Rng;
use crate::rng::fnv;

pub struct C04;

const OBS_HELPER: &str = r#"
def _obs(name, v):
    t = type(v)
    emit(name, v)
    if t == "list" or t == "tuple":
        emit(name, "seq", len(v), [x for x in v][:3], v[:2], v[-1:], (v[0] if len(v) else None), 3 in v, sorted([repr(x) for x in v]), [i for i, _x in enumerate(v)])
        emit(name, "seq2", v[::-1], v[1::2], v[-2:], list(reversed(v)), bool(v), "%s|%r" % (v, v), v + v if t == "list" else v * 2, [x for x in v if x == (v[0] if len(v) else None)], v == _copy(v), not (v != _copy(v)))
    elif t == "dict":
        emit(name, "dict", len(v), list(v.keys()), [repr(x) for x in v.values()], list(v.items())[:2], "k" in v, v.get("k"), [k for k in v])
        emit(name, "dict2", bool(v), 1 in v, 1.0 in v, v.get(1), v.get(1.0), v.get("zz_absent", 7), {k: 1 for k in v} == {k: 1 for k in _copy(v)}, "%s" % (v,), sorted([repr(k) for k in v.keys()]), dict(v) == v, len(list(v.values())))
    elif t == "set":
        emit(name, "set", len(v), sorted([repr(x) for x in v]), 1 in v, [repr(x) for x in v])
    elif t == "struct":
        emit(name, "struct", dir(v), [repr(getattr(v, a)) for a in dir(v)])
    elif t == "string":
        emit(name, "str", len(v), v.upper(), v[:2], hash(v), v.split(","))
    elif t == "int":
        emit(name, "int", v + 1, v * 2, -v, str(v), v // 7, {v: 1}, v in [v], v == v + 0)
    elif t == "range":
        emit(name, "range", list(v), len(v), 2 in v)
    else:
        emit(name, "other", repr(v), str(v), dir(v)[:6])
def _copy(v):
    t = type(v)
    if t == "list":
        return [x for x in v]
    elif t == "dict":
        return {k: x for k, x in v.items()}
    elif t == "set":
        return set([x for x in v])
    elif t == "tuple":
        return tuple([x for x in v])
    elif t == "string":
        return "".join([c for c in v.elems()])
    elif t == "struct":
        return struct(**{a: getattr(v, a) for a in dir(v)})
    return v
"#;

/// A frozen library whose factories create closures *inside the library's code* that read the
/// library's globals; the exporter stores such closures and they must behave the same after freeze.
const LIB: &str = r#"
LIBDATA = [1, 2, 3]
LIBMAP = {"k": [7], "j": "s"}
def make_reader():
    def rd():
        return [LIBDATA, LIBMAP["k"], len(LIBMAP)]
    return rd
def make_adder(n):
    def ad(x):
        return [x + n, LIBDATA[0], LIBMAP["j"]]
    return ad
def lib_pure(x):
    y = [x, LIBDATA]
    return y
"#;

const LIB_PRELUDE: &[&str] = &[
    "load(\"lib\", \"make_reader\", \"make_adder\", \"lib_pure\", \"LIBDATA\")",
    "rd0 = make_reader()",
    "ad0 = make_adder(5)",
    "lp0 = lib_pure",
    "held0 = [LIBDATA, rd0, {\"f\": ad0}]",
];

fn build_lib() -> Option<FrozenModule> {
    Module::with_temp_heap(|m| {
        {
            let mut e = Evaluator::new(&m);
            let ast = kit::parse("lib.star", LIB).ok()?;
            e.eval_module(ast, kit::globals()).ok()?;
        }
        m.freeze().ok()
    })
}

const SUBS_HELPER: &str = r#"
def _subs(v, d):
    out = [v]
    if d == 0:
        return out
    t = type(v)
    if t == "list" or t == "tuple":
        for x in v:
            out += _subs(x, d - 1)
    elif t == "dict":
        for x in v.values():
            out += _subs(x, d - 1)
    elif t == "struct" or t == "record":
        for a in dir(v):
            out += _subs(getattr(v, a), d - 1)
    return out
"#;

const MUTATIONS: &[(&str, &str, bool)] = &[
    // (target type, statement over T, must_error)
    ("list", "T.append(1)", true),
    ("list", "T.extend([1, 2])", true),
    ("list", "T.insert(0, 1)", true),
    ("list", "T.pop()", true),
    ("list", "T.remove(T[0] if T else 1)", true),
    ("list", "T.clear()", true),
    ("list", "T[0] = 1", true),
    ("list", "T[-1] = None", true),
    ("list", "HH = [T]\nHH[0] += [1]", true),
    ("list", "HH = [T]\nHH[0] *= 2", false),
    ("list", "T.append(T)", true),
    ("dict", "T[\"new\"] = 1", true),
    ("dict", "T[list(T.keys())[0] if T else \"q\"] = 1", true),
    ("dict", "T.update({\"n\": 1})", true),
    ("dict", "T.update(n = 1)", true),
    ("dict", "T.setdefault(\"zz_new\", 1)", true),
    ("dict", "T.pop(list(T.keys())[0] if T else \"q\", None)", true),
    ("dict", "T.popitem()", true),
    ("dict", "T.clear()", true),
    ("dict", "HH = [T]\nHH[0] |= {\"n\": 1}", true),
    // Mutating operations that would not change the content (existing key, empty argument, absent
    // element): still operations that mutate, still must fail on a frozen value.
    ("dict", "T.setdefault(list(T.keys())[0] if T else \"q\", 1)", true),
    ("dict", "T.setdefault(list(T.keys())[-1] if T else \"q\")", true),
    ("dict", "T.update({})", true),
    ("dict", "T.update()", true),
    ("dict", "T.pop(\"zz_absent\", None)", true),
    ("dict", "HH = [T]\nHH[0] |= {}", true),
    ("list", "T.extend([])", true),
    ("list", "HH = [T]\nHH[0] += []", true),
    ("list", "T[0] = T[0]", true),
    ("dict", "K0 = list(T.keys())[0] if T else \"q\"\nT[K0] = T.get(K0)", true),
    ("dict", "K0 = list(T.keys())[-1] if T else \"q\"\nT[K0] += 1", true),
    ("list", "T.insert(len(T), 0)", true),
    ("list", "T[-1] += 1", true),
    ("set", "T.discard(\"zz_absent\")", true),
    ("set", "T.update([])", true),
    ("set", "T.add(list(T)[0] if T else 1)", true),
    ("set", "T.add(99)", true),
    ("set", "T.discard(list(T)[0] if T else 1)", true),
    ("set", "T.remove(list(T)[0] if T else 1)", true),
    ("set", "T.pop()", true),
    ("set", "T.clear()", true),
    ("set", "T.update([99])", true),
    ("struct", "T.a = 1", true),
    ("struct", "T.zz = 1", true),
    ("record", "T.x = 1", true),
    ("tuple", "T[0] = 1", true),
    ("function", "RR = T(3)\nemit(type(RR))", false),
    ("function", "RR = T(3)\nRR.append(1)", false),
    ("function", "RR = T(3)\nRR[\"k\"].append(1)", false),
    ("function", "RR = T(3)\nRR[0].append(1)", false),
    ("function", "RR = T()\nRR[\"log\"].append(1)", false),
    ("function", "RR = T(3)\nRR[1].append(1)", false),
];

struct ObsRes {
    lines: Vec<String>,
    err: Option<String>,
}

fn public_names(names: impl Iterator<Item = String>) -> Vec<String> {
    let mut v: Vec<String> = names.filter(|n| !n.starts_with('_')).collect();
    v.sort();
    v
}

/// Public names of a frozen module that are actually assigned (a name can be registered by the
/// compiler without ever being assigned, e.g. the variable of a loop that never ran).
fn frozen_names(fm: &FrozenModule) -> Vec<String> {
    public_names(fm.names().map(|n| n.as_str().to_owned()).filter(|n| matches!(fm.get_option_owned(n), Ok(Some(_)))))
}

fn obs_lines(names: &[String], pure1: &[String]) -> String {
    let mut s: String = names.iter().map(|n| format!("_obs(\"{n}\", {n})\n")).collect();
    // Equality with fresh, structurally equal values and with empty literals, written with the
    // export's name directly (a compile-time constant in an importer) at top level and in a def.
    for n in names {
        s += &format!(
            "emit(\"eq\", \"{n}\", {n} == _copy({n}), {n} != _copy({n}), _copy({n}) == {n}, {n} == {n}, [{n}] == [_copy({n})], {n} in [_copy({n})], {n} == [], [] == {n}, {n} == {{}}, {n} != {{}}, {n} == (), {n} == \"\", {n} == set(), {n} == 0, {n} == None)\n"
        );
        s += &format!("def _cmp_{n}(x):\n    return [x == {n}, {n} == x, x != {n}, [x] == [{n}], {{\"k\": x}} == {{\"k\": {n}}}]\nemit(\"eqdef\", \"{n}\", _cmp_{n}(_copy({n})), _cmp_{n}([]), _cmp_{n}({{}}))\n");
    }
    // Side-effect-free callables are also *called*: same result before and after freeze.
    for n in names {
        if n == "rd0" || n.starts_with("own_eq") {
            s += &format!("emit(\"call\", \"{n}\", {n}())\n");
        } else if n == "ad0" || n == "lp0" || n == "use_gf0" || n == "use_and0" || n == "use_slices0" || n == "copy_mut0" || pure1.contains(n) {
            s += &format!("emit(\"call\", \"{n}\", {n}(3))\n");
        } else if n == "held0" {
            s += "emit(\"call\", \"held0\", held0[1](), held0[2][\"f\"](4))\n";
        }
    }
    s
}

/// Observe a frozen module through a fresh importer.
fn observe_frozen(fm: &FrozenModule, modname: &str, pure1: &[String]) -> ObsRes {
    let names = frozen_names(fm);
    let loader = kit::MapLoader { modules: [(modname.to_owned(), fm.clone())].into_iter().collect() };
    let before = kit::ctx(|c| c.transcript.len());
    let mut err = None;
    Module::with_temp_heap(|m| {
        let mut eval = Evaluator::new(&m);
        eval.set_loader(&loader);
        let load = if names.is_empty() {
            String::new()
        } else {
            format!("load(\"{modname}\", {})\n", names.iter().map(|n| format!("\"{n}\"")).collect::<Vec<_>>().join(", "))
        };
        let text = format!("{load}{OBS_HELPER}{}", obs_lines(&names, pure1));
        match kit::parse("observer.star", &text) {
            Err(e) => err = Some(format!("{e}")),
            Ok(ast) => {
                if let Err(e) = eval.eval_module(ast, kit::globals()) {
                    err = Some(kit::error_text(&e));
                }
            }
        }
    });
    let lines = kit::ctx(|c| c.transcript.split_off(before));
    ObsRes { lines, err }
}

fn eval_on<'v>(eval: &mut Evaluator<'v, '_, '_>, name: &str, text: &str) -> Result<(), String> {
    match kit::parse(name, text) {
        Err(e) => Err(format!("parse: {e}")),
        Ok(ast) => eval.eval_module(ast, kit::globals()).map(|_| ()).map_err(|e| format!("{}", e.without_diagnostic())),
    }
}

impl World for C04 {
    fn id(&self) -> &'static str {
        "C04"
    }

    fn describe(&self) -> Describe {
        Describe {
            level: "exploration",
            rule: "case = generated exporter module (nested/aliased/cyclic containers, structs, records, enums, ranges, closures and defaults holding containers) frozen after a seeded prefix of its statements (optionally with a collection forced at every safepoint), plus a seeded history of 6-24 attacks from a persistent importer, fresh importers and a second-level importer of a re-export: mutation catalogue x reachability path (export, element, dict value, struct/record field, tuple member, value returned by an exported function); oracle: importer-side observation == in-module pre-freeze observation, every data-path mutation errors, observation unchanged after every operation, copies are mutable; non-trivial = at least one mutation attempt reached a frozen container; distinct = digest of (statements, freeze point, attacks)",
            sim_time_unit: "importer evaluations performed against the frozen module",
            real_components: vec!["Module::freeze / Freezer / FreezeBranded impls", "frozen list/dict/set/struct/record/enum/tuple/def values and their mutators", "load() / FrozenModule API", "evaluator"],
            stub_components: vec!["file loader", "freeze point chosen by the simulator (prefix of the module)"],
            assumptions: vec!["a mutating method applied to a frozen container must return an error even if it would not change the content (e.g. clear() of an empty list); no false alarm of this kind was seen on the unchanged tree", "`HH[0] *= 2` builds a new list and is only checked with the unchanged-observation oracle; `+=` on a frozen list and `|=` on a frozen dict must error (they do on the unchanged tree)"],
            exhaustive: false,
        }
    }

    fn budget(&self, tier: Tier) -> Budget {
        match tier {
            Tier::Quick => Budget { runs: 1000, wall_s: 120, block: 50, recheck: 24, hang_s: 120 },
            Tier::Thorough => Budget { runs: 200_000, wall_s: 1500, block: 200, recheck: 100, hang_s: 120 },
        }
    }

    fn generate(&self, seed: u64, index: u64, _tier: Tier) -> Json {
        let root = Rng::new(run_seed(seed, "C04", index));
        let mut wl = root.fork("workload");
        let mut fl = root.fork("faults");
        let mut feat = Features::draw(&mut wl);
        feat.host = false;
        feat.emit_rate = 0;
        feat.mutation = true;
        let n = 6 + wl.usize(24);
        let (stmts, exports) = gen_module(&mut wl, feat, "", n, &[], false);
        let mut stmts: Vec<String> = stmts.into_iter().filter(|s| !s.starts_with("emit(")).collect();
        let pure1: Vec<String> = exports.iter().filter(|(_, k)| *k == crate::genprog::Kind::PureFunc1).map(|(n, _)| n.clone()).collect();
        let use_lib = fl.chance(2, 3);
        if use_lib {
            let mut pre: Vec<String> = LIB_PRELUDE.iter().map(|s| (*s).to_owned()).collect();
            pre.extend(stmts);
            stmts = pre;
        }
        // Globals that are re-assigned before the freeze and read by defs (inlined when the defs are
        // re-optimised at freeze), and dicts whose keys were deleted and re-inserted.
        if wl.chance(1, 2) {
            stmts.extend(
                [
                    "GF0 = 1",
                    "GL0 = [1]",
                    "GS0 = \"s\"",
                    "def use_gf0(x):\n    if GF0:\n        return [x, GF0, GL0, GS0]\n    return [x, GS0 + \"-\" + str(GF0)]",
                    "def use_and0(x):\n    return (GF0 and x) or [GL0, x, \"%s-%s\" % (GS0, x)]",
                    "GL6 = [0, 1, 2, 3, 4, 5]",
                    "GT6 = (0, 1, 2, 3, 4, 5)",
                    "GS6 = \"abcdef\" + str(len(GL6))",
                    "def use_slices0(i):\n    return [GL6[i:5:1], GL6[1:i:1], GL6[0:5:i], GL6[i:], GL6[:i], GL6[::i], GL6[i:5], GL6[i::2], GT6[i:5:1], GS6[i:5:1], GL6[-i:6:1], GL6[i], GT6[-i]]",
                    "def copy_mut0(x):\n    r = [y for y in GL6]\n    r.append(x)\n    t = [y for y in GT6]\n    t.append(x)\n    l2 = list(GL6)\n    l2.append(x)\n    l3 = GL6 + []\n    l3.append(x)\n    l4 = GL6[:]\n    l4.append(x)\n    l5 = sorted(GL6)\n    l5.append(x)\n    d = {k: v for k, v in GD6.items()}\n    d[\"n\"] = x\n    d2 = dict(GD6)\n    d2[\"n\"] = x\n    s = set(GL6)\n    s.add(x + 100)\n    return [r, t, l2, l3, l4, l5, d, d2, len(s), GL6, GD6]",
                    "GD6 = {\"a\": [1], \"b\": 2}",
                    "GF0 = 0",
                    "GL0 = GL0 + [2]",
                    "GS0 = GS0 + \"t\"",
                    "DR0 = {\"a\": 1, \"b\": 2, \"c\": 3, 1: \"i\"}",
                    "DR0.pop(\"b\")",
                    "DR0[\"b\"] = 4",
                    "DR0.pop(\"a\")",
                    "DR0[\"a\"] = [5]",
                    "DB0 = {(\"k%d\" % i): i for i in range(40)}",
                    "_ = [DB0.pop(\"k%d\" % i) for i in range(0, 40, 3)]",
                    "DB0[\"k3\"] = 333",
                    "SB0 = set([i * 7 for i in range(30)])",
                    "SB0.remove(14)",
                    "SB0.add(14)",
                ]
                .iter()
                .map(|s| (*s).to_owned()),
            );
        }
        // Empty containers (literal and emptied), and a def of the exporter itself that compares
        // its own globals with fresh equal values (re-optimised at freeze with the globals known).
        if wl.chance(1, 2) {
            stmts.extend(["EL0 = []", "ED0 = {}", "ES0 = set()", "ET0 = ()", "EC0 = [1, 2]", "EC0.clear()", "EK0 = {\"a\": 1}", "EK0.pop(\"a\")", "ESTR0 = \"\""].iter().map(|s| (*s).to_owned()));
        }
        {
            let conts: Vec<&(String, crate::genprog::Kind)> = exports.iter().filter(|(n, k)| matches!(k, crate::genprog::Kind::List | crate::genprog::Kind::Dict) && !n.contains("ld")).take(4).collect();
            let mut items: Vec<String> = Vec::new();
            for (n, k) in conts {
                let c = if *k == crate::genprog::Kind::List { format!("[x for x in {n}]") } else { format!("{{k: v for k, v in {n}.items()}}") };
                items.push(format!("{c} == {n}"));
                items.push(format!("{n} != {c}"));
            }
            if stmts.iter().any(|s| s == "EL0 = []") {
                items.extend(["EL0 == []", "[] == EL0", "ED0 == {}", "EC0 == []", "EK0 == {}", "EL0 != []", "[EL0] == [[]]", "ES0 == set()", "ET0 == ()"].iter().map(|s| (*s).to_owned()));
            }
            if !items.is_empty() {
                stmts.push(format!("def own_eq0():\n    return [{}]", items.join(", ")));
            }
        }
        let freeze_at = if fl.chance(1, 2) { stmts.len() } else { 1 + fl.usize(stmts.len()) };
        let na = 6 + fl.usize(19);
        let attacks: Vec<Json> = (0..na)
            .map(|_| {
                let m = fl.usize(MUTATIONS.len());
                json!({"importer": fl.below(3), "export": fl.below(64), "cand": fl.below(64), "mutation": m, "depth": fl.below(4)})
            })
            .collect();
        json!({"stmts": stmts, "freeze_at": freeze_at, "gc": fl.chance(1, 3), "attacks": attacks, "second_level": fl.chance(1, 2), "pure1": pure1, "use_lib": use_lib})
    }

    fn execute(&self, case: &Json) -> Outcome {
        let mut o = Outcome::default();
        o.digest = fnv(case.to_string().as_bytes());
        verif_hooks::census_enable(true);
        kit::ctx_reset();
        let stmts: Vec<String> = case["stmts"].as_array().map(|a| a.iter().filter_map(|x| x.as_str().map(|s| s.to_owned())).collect()).unwrap_or_default();
        let k = (case["freeze_at"].as_u64().unwrap_or(stmts.len() as u64) as usize).min(stmts.len());
        let gc = case["gc"].as_bool().unwrap_or(false);
        let pure1: Vec<String> = case["pure1"].as_array().map(|a| a.iter().filter_map(|x| x.as_str().map(|s| s.to_owned())).collect()).unwrap_or_default();
        let lib_loader = kit::MapLoader { modules: build_lib().map(|l| [("lib".to_owned(), l)].into_iter().collect()).unwrap_or_default() };
        if gc {
            verif_hooks::set_gc_decider(Some(Box::new(|_| GcDecision::Collect)));
        }
        // 1. Exporter: evaluate the prefix, observe inside the module, freeze.
        let mut pre: Vec<String> = Vec::new();
        let mut pre_err = None;
        let frozen = Module::with_temp_heap(|module| {
            {
                let mut eval = Evaluator::new(&module);
                eval.set_loader(&lib_loader);
                let text = stmts[..k].join("\n") + "\n";
                let _ = eval_on(&mut eval, "exporter.star", &text);
                let names = public_names(module.names().map(|n| n.as_str().to_owned()).filter(|n| module.get(n).is_some()));
                let before = kit::ctx(|c| c.transcript.len());
                let obs = format!("{OBS_HELPER}{}", obs_lines(&names, &pure1));
                if let Err(e) = eval_on(&mut eval, "observer.star", &obs) {
                    pre_err = Some(e);
                }
                pre = kit::ctx(|c| c.transcript.split_off(before));
            }
            module.freeze()
        });
        verif_hooks::set_gc_decider(None);
        let mut log: Vec<String> = pre.clone();
        let fm = match frozen {
            Ok(fm) => fm,
            Err(e) => {
                o.bump("invalid_cells", 1);
                o.log_hash = fnv(format!("{e:?}").as_bytes());
                return o;
            }
        };
        if k < stmts.len() {
            o.bump("probe.frozen_at_inner_statement_boundary", 1);
        }
        if gc {
            o.bump("probe.collections_forced_before_freeze", 1);
        }
        // 2. Freeze preserves: the importer-side observation equals the in-module one.
        let post = observe_frozen(&fm, "exp", &pure1);
        o.sim_time += 1;
        if let Some(e) = &pre_err {
            o.bump("observation_programs_ending_in_error", 1);
            if std::env::var_os("VERIF_DEBUG_OBS").is_some() {
                o.bump(&format!("obs_err.{}", kit::clip(e).chars().take(160).collect::<String>()), 1);
            }
            log.push(format!("observer error: {}", kit::clip(e)));
        }
        if pre_err.is_some() != post.err.is_some() {
            o.violate("freeze-changed-value", "preserve", format!("observation error before freeze {:?}, after {:?}", pre_err, post.err));
        } else if let Some(d) = kit::diff_transcripts(&pre, &post.lines) {
            o.violate("freeze-changed-value", "preserve", format!("pre-freeze vs post-freeze observation: {d}"));
        }
        if o.violation.is_some() {
            o.log_hash = kit::hash_lines(&log);
            return o;
        }
        let reference = post.lines;
        let names = frozen_names(&fm);
        if names.is_empty() {
            o.log_hash = kit::hash_lines(&log);
            return o;
        }
        // 3. Attacks.
        let loader = kit::MapLoader { modules: [("exp".to_owned(), fm.clone())].into_iter().collect() };
        let empty = Vec::new();
        let attacks = case["attacks"].as_array().unwrap_or(&empty);
        let persistent_result = Module::with_temp_heap(|pm| {
            {
                let mut peval = Evaluator::new(&pm);
                peval.set_loader(&loader);
                let helpers = format!(
                    "load(\"exp\", {})\n{SUBS_HELPER}ALLV = [{}]\n",
                    names.iter().map(|n| format!("\"{n}\"")).collect::<Vec<_>>().join(", "),
                    names.join(", ")
                );
                let _ = eval_on(&mut peval, "imp_helpers.star", &helpers);
                for (ai, a) in attacks.iter().enumerate() {
                    if o.violation.is_some() {
                        break;
                    }
                    let (ty, stmt, must_error) = MUTATIONS[a["mutation"].as_u64().unwrap_or(0) as usize % MUTATIONS.len()];
                    let name = &names[a["export"].as_u64().unwrap_or(0) as usize % names.len()];
                    let j = a["cand"].as_u64().unwrap_or(0);
                    let depth = a["depth"].as_u64().unwrap_or(2);
                    let sfx = format!("{ai}");
                    // Either one export chosen by index, or every export (so that a target is usually found).
                    let roots = if a["export"].as_u64().unwrap_or(0) % 3 == 0 { format!("[{name}]") } else { "ALLV".to_owned() };
                    let find = format!(
                        "cands{sfx} = [x for r in {roots} for x in _subs(r, {depth}) if type(x) == \"{ty}\"]\nemit(\"cands\", len(cands{sfx}))\n"
                    );
                    let attack = format!(
                        "T = cands{sfx}[{j} % len(cands{sfx})]\n{}\n",
                        stmt
                    );
                    let copy = format!("T = cands{sfx}[{j} % len(cands{sfx})]\nCC = {{\"list\": list, \"dict\": dict, \"set\": set}}[\"{ty}\"](T)\n{}\nemit(\"copy-mutated\")\n", stmt.replace("T", "CC"));
                    let persistent = a["importer"].as_u64().unwrap_or(0) == 0;
                    let run3 = |eval: &mut Evaluator, o: &mut Outcome| -> Option<(bool, String)> {
                        let before = kit::ctx(|c| c.transcript.len());
                        if let Err(e) = eval_on(eval, &format!("find{sfx}.star"), &find) {
                            let _ = e;
                            return None;
                        }
                        let lines = kit::ctx(|c| c.transcript.split_off(before));
                        let n: u64 = lines.last().and_then(|l| l.rsplit("int:").next()).and_then(|s| s.split('|').next()).and_then(|s| s.parse().ok()).unwrap_or(0);
                        if n == 0 {
                            return None;
                        }
                        o.sim_time += 2;
                        let r = eval_on(eval, &format!("attack{sfx}.star"), &attack);
                        let _ = kit::ctx(|c| c.transcript.split_off(before));
                        let res = match r {
                            Ok(()) => (true, String::new()),
                            Err(e) => (false, e),
                        };
                        if must_error && (ty == "list" || ty == "dict" || ty == "set") {
                            // A copy must be mutable (the operation itself is valid).
                            let rc = eval_on(eval, &format!("copy{sfx}.star"), &copy);
                            let _ = kit::ctx(|c| c.transcript.split_off(before));
                            if rc.is_ok() {
                                o.bump("probe.copy_mutated_ok", 1);
                            }
                        }
                        Some(res)
                    };
                    let res = if persistent {
                        run3(&mut peval, &mut o)
                    } else {
                        Module::with_temp_heap(|fmod| {
                            let mut feval = Evaluator::new(&fmod);
                            feval.set_loader(&loader);
                            let _ = eval_on(&mut feval, "imp_helpers.star", &helpers);
                            run3(&mut feval, &mut o)
                        })
                    };
                    let Some((ok, err)) = res else {
                        o.bump("attacks_without_target", 1);
                        continue;
                    };
                    o.nontrivial = true;
                    o.bump(&format!("fault.mutation_attempt_on_frozen_{ty}"), 1);
                    log.push(format!("attack {ai} {name} {ty} `{stmt}` ok={ok} {}", kit::clip(&err)));
                    if must_error && ok {
                        o.violate(
                            "frozen-value-mutated",
                            &format!("mutable/{ty}"),
                            format!("`{stmt}` on a {ty} reachable from export `{name}` of the frozen module succeeded"),
                        );
                        break;
                    }
                    // Whatever happened, the frozen module must be unchanged.
                    let now = observe_frozen(&fm, "exp", &pure1);
                    o.sim_time += 1;
                    if let Some(d) = kit::diff_transcripts(&reference, &now.lines) {
                        o.violate(
                            "frozen-value-changed",
                            &format!("changed/{ty}"),
                            format!("after `{stmt}` (ok={ok}) on export `{name}`: {d}"),
                        );
                        break;
                    }
                }
                // Re-export through the persistent importer for the second level.
                let re = format!("load(\"exp\", again = \"{}\")\nwrap = [again, {{\"k\": again}}]\ndef give():\n    return again\n", names[0]);
                let _ = eval_on(&mut peval, "reexport.star", &re);
            }
            pm.freeze()
        });
        // 3b. Host-side attacks through the Rust value API (set_at / set_attr on frozen values).
        if o.violation.is_none() {
            for n in &names {
                if let Ok(h) = fm.get_owned(n) {
                    let mut bad: Option<String> = None;
                    Module::with_temp_heap(|m| {
                        let heap = m.heap();
                        let v = h.add_to_heap(heap);
                        let ty = v.get_type();
                        if ty == "list" || ty == "dict" || ty == "tuple" {
                            o.bump("fault.host_api_mutation_attempt", 2);
                            if v.set_at(heap.alloc(0), heap.alloc(1)).is_ok() {
                                bad = Some(format!("Value::set_at on frozen {ty} export `{n}` succeeded"));
                            }
                            if v.set_at(heap.alloc("hk"), heap.alloc(1)).is_ok() {
                                bad = Some(format!("Value::set_at(\"hk\") on frozen {ty} export `{n}` succeeded"));
                            }
                        }
                        if ty == "struct" || ty == "record" {
                            o.bump("fault.host_api_mutation_attempt", 1);
                            if v.set_attr("a", heap.alloc(1)).is_ok() {
                                bad = Some(format!("Value::set_attr on frozen {ty} export `{n}` succeeded"));
                            }
                        }
                    });
                    if let Some(b) = bad {
                        o.violate("frozen-value-mutated", "mutable/host-api", b);
                        break;
                    }
                }
            }
            let now = observe_frozen(&fm, "exp", &pure1);
            if let Some(d) = kit::diff_transcripts(&reference, &now.lines) {
                o.violate("frozen-value-changed", "changed/host-api", format!("after host API attacks: {d}"));
            }
        }
        // 4. Second level: attack through a re-export of a frozen importer.
        if o.violation.is_none() && case["second_level"].as_bool().unwrap_or(false) {
            if let Ok(fm2) = persistent_result {
                o.bump("probe.second_level_importers", 1);
                let loader2 = kit::MapLoader { modules: [("imp".to_owned(), fm2)].into_iter().collect() };
                Module::with_temp_heap(|m2| {
                    let mut e2 = Evaluator::new(&m2);
                    e2.set_loader(&loader2);
                    let _ = eval_on(&mut e2, "h.star", SUBS_HELPER);
                    for (ty, stmt, must_error) in MUTATIONS.iter().filter(|(t, _, _)| *t == "list" || *t == "dict" || *t == "set") {
                        let find = format!("load(\"imp\", \"wrap\", \"give\")\nc2 = [x for x in _subs(wrap, 3) + _subs(give(), 2) if type(x) == \"{ty}\"]\nemit(len(c2))\n");
                        let before = kit::ctx(|c| c.transcript.len());
                        if eval_on(&mut e2, "f2.star", &find).is_err() {
                            continue;
                        }
                        let lines = kit::ctx(|c| c.transcript.split_off(before));
                        let n: u64 = lines.last().and_then(|l| l.rsplit("int:").next()).and_then(|s| s.split('|').next()).and_then(|s| s.parse().ok()).unwrap_or(0);
                        // `wrap` itself is a list of the importer: skip index 0 which is wrap.
                        for j in 0..n.min(4) {
                            let r = eval_on(&mut e2, "a2.star", &format!("T = c2[{j}]\n{stmt}\n"));
                            let _ = kit::ctx(|c| c.transcript.split_off(before));
                            o.sim_time += 1;
                            o.bump("fault.mutation_attempt_second_level", 1);
                            if *must_error && r.is_ok() {
                                o.violate("frozen-value-mutated", &format!("mutable2/{ty}"), format!("second level: `{stmt}` on candidate {j} succeeded"));
                            }
                        }
                    }
                });
                let now = observe_frozen(&fm, "exp", &pure1);
                if let Some(d) = kit::diff_transcripts(&reference, &now.lines) {
                    o.violate("frozen-value-changed", "changed/second-level", format!("after second-level attacks: {d}"));
                }
            }
        }
        for (what, ty, n) in verif_hooks::census_take() {
            o.bump(&format!("census.{what}.{ty}"), n);
        }
        verif_hooks::census_enable(false);
        o.log_hash = kit::hash_lines(&log);
        o
    }

    fn shrink(&self, case: &Json) -> Vec<Json> {
        let mut out = Vec::new();
        let empty = Vec::new();
        let attacks = case["attacks"].as_array().unwrap_or(&empty);
        if case["second_level"].as_bool().unwrap_or(false) {
            let mut c = case.clone();
            c["second_level"] = json!(false);
            out.push(c);
        }
        if case["gc"].as_bool().unwrap_or(false) {
            let mut c = case.clone();
            c["gc"] = json!(false);
            out.push(c);
        }
        if attacks.len() > 1 {
            for a in attacks {
                let mut c = case.clone();
                c["attacks"] = json!([a]);
                out.push(c);
            }
        }
        let stmts = case["stmts"].as_array().unwrap_or(&empty);
        let k = case["freeze_at"].as_u64().unwrap_or(stmts.len() as u64) as usize;
        if k < stmts.len() {
            let mut c = case.clone();
            c["stmts"] = json!(stmts[..k].to_vec());
            out.push(c);
        }
        for i in (0..stmts.len().min(k)).rev() {
            let mut s2 = stmts.clone();
            s2.remove(i);
            let mut c = case.clone();
            c["stmts"] = json!(s2);
            c["freeze_at"] = json!(k.saturating_sub(1));
            out.push(c);
        }
        out
    }
}
