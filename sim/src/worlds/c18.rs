//! C18 — profilers, statement hooks and the debugger observe without interfering.
//!
//! Generated programs contain marker statements `mark(id, locals...)`; the uninstrumented
//! transcript therefore records which marker lines ran, in what order, how often and with what
//! values. The same program is then run under every `ProfileMode` (followed by `gen_profile`),
//! under a counting statement hook, and under the DAP adapter driven by a **simulated debugger
//! client** in lock-step with the evaluation thread: breakpoints on a seeded subset of marker
//! lines (changed at seeded stops), conditional breakpoints (incl. failing conditions),
//! single-stepping Into/Over/Out, requests at every stop, and faults: the debugger detaches at
//! a seeded stop; a request is issued while the program is running and the evaluation ends
//! before the next stop (it must return, never hang).

use std::collections::BTreeMap;
use std::sync::Arc;
use std::sync::Mutex;
use std::sync::mpsc;
use std::time::Duration;

use debugserver_types::Source;
use debugserver_types::SetBreakpointsArguments;
use debugserver_types::SourceBreakpoint;
use debugserver_types::StackTraceArguments;
use serde_json::Value as Json;
use serde_json::json;
use starlark::codemap::FileSpanRef;
use starlark::debug::DapAdapter;
use starlark::debug::DapAdapterClient;
use starlark::debug::DapAdapterEvalHook;
use starlark::debug::StepKind;
use starlark::debug::VariablePath;
use starlark::debug::prepare_dap_adapter;
use starlark::debug::resolve_breakpoints;
use starlark::environment::Module;
use starlark::eval::BeforeStmtFunc;
use starlark::eval::BeforeStmtFuncDyn;
use starlark::eval::Evaluator;
use starlark::eval::ProfileMode;

use crate::core::*;
use crate::kit;
use crate::rng::Rng;
use crate::rng::fnv;

pub struct C18;

const FILE: &str = "marked.star";

/// Generate a program with markers. Returns (text, 1-based line numbers of the marker statements).
fn gen_marked(rng: &mut Rng) -> (String, Vec<(u32, u32)>, Vec<(u32, String)>) {
    let mut lines: Vec<String> = Vec::new();
    let mut markers: Vec<(u32, u32)> = Vec::new();
    // (marker line, name): a name that is not assigned yet when that marker is reached.
    let mut absent: Vec<(u32, String)> = Vec::new();
    let mut next_id = 0u32;
    let mut push_mark = |lines: &mut Vec<String>, indent: usize, args: &[&str]| {
        let id = next_id;
        next_id += 1;
        let a = if args.is_empty() { String::new() } else { format!(", {}", args.join(", ")) };
        lines.push(format!("{}mark({id}{a})", " ".repeat(indent)));
        markers.push((id, lines.len() as u32));
    };
    lines.push("g0 = 10".to_owned());
    lines.push("glist = [1, 2]".to_owned());
    push_mark(&mut lines, 0, &["g0"]);
    let nf = 1 + rng.usize(3);
    let mut funcs: Vec<String> = Vec::new();
    for f in 0..nf {
        let name = format!("fn{f}");
        lines.push(format!("def {name}(a, b = 2):"));
        lines.push("    c = a + b".to_owned());
        push_mark(&mut lines, 4, &["a", "b", "c"]);
        let nb = 1 + rng.usize(4);
        for _ in 0..nb {
            match rng.below(16) {
                15 => {
                    // a comprehension variable with the name of a local that is assigned only later
                    let nm = format!("late2_{}", lines.len());
                    lines.push(format!("    ws = [{nm} * 2 for {nm} in range(3)]"));
                    push_mark(&mut lines, 4, &["c"]);
                    absent.push((lines.len() as u32, nm.clone()));
                    lines.push(format!("    {nm} = c + len(ws)"));
                    push_mark(&mut lines, 4, &[&nm]);
                }
                8 => {
                    // a loop left by break, the loop variable read after the loop
                    lines.push("    for i2 in range(4):".to_owned());
                    lines.push("        if i2 == c % 3:".to_owned());
                    lines.push("            break".to_owned());
                    push_mark(&mut lines, 8, &["i2"]);
                    push_mark(&mut lines, 4, &["i2", "c"]);
                }
                9 => {
                    // augmented assignments (item, plain) and unpacking
                    lines.push("    ys = [a, b]".to_owned());
                    lines.push("    ys[0] += c".to_owned());
                    lines.push("    p1, (p2, p3) = ys[0], (b, c)".to_owned());
                    push_mark(&mut lines, 4, &["p1", "p2", "p3"]);
                    lines.push("    c += p1".to_owned());
                    push_mark(&mut lines, 4, &["c"]);
                }
                10 => {
                    // a local captured by a nested def and re-assigned afterwards
                    lines.push("    cap = c".to_owned());
                    lines.push("    def rd():".to_owned());
                    lines.push("        return cap".to_owned());
                    lines.push("    cap = cap + 1".to_owned());
                    push_mark(&mut lines, 4, &["cap"]);
                    lines.push("    c = rd() + cap".to_owned());
                    push_mark(&mut lines, 4, &["c", "cap"]);
                }
                11 => {
                    // if / elif / else chain, return without a value in a helper
                    lines.push("    def nothing(z):".to_owned());
                    lines.push("        if z > 1000000:".to_owned());
                    lines.push("            return".to_owned());
                    push_mark(&mut lines, 8, &["z"]);
                    lines.push("    nothing(c)".to_owned());
                    lines.push("    if c % 3 == 0:".to_owned());
                    push_mark(&mut lines, 8, &["c"]);
                    lines.push("    elif c % 3 == 1:".to_owned());
                    push_mark(&mut lines, 8, &["a"]);
                    lines.push("    else:".to_owned());
                    lines.push("        pass".to_owned());
                    push_mark(&mut lines, 8, &["b"]);
                }
                12 => {
                    // comprehension with a condition and a nested clause, its variables do not leak
                    lines.push("    k = c".to_owned());
                    lines.push("    zs = [k + m for k in range(3) if k != 1 for m in range(2)]".to_owned());
                    push_mark(&mut lines, 4, &["k"]);
                    lines.push("    c = c + len(zs)".to_owned());
                }
                13 => {
                    // a call through a lambda and through a native callback
                    lines.push("    lam = lambda v: v + a".to_owned());
                    lines.push("    c = lam(c) + list(map(lam, [b]))[0]".to_owned());
                    push_mark(&mut lines, 4, &["c"]);
                }
                14 => {
                    // nested loops with continue in the inner one
                    lines.push("    for o1 in range(2):".to_owned());
                    lines.push("        for o2 in range(2):".to_owned());
                    lines.push("            if o2 == o1:".to_owned());
                    lines.push("                continue".to_owned());
                    push_mark(&mut lines, 12, &["o1", "o2"]);
                    push_mark(&mut lines, 8, &["o1"]);
                }
                0 => {
                    lines.push(format!("    for i in range({}):", 1 + rng.below(3)));
                    lines.push("        d = c * i".to_owned());
                    push_mark(&mut lines, 8, &["i", "d"]);
                    if rng.bool() {
                        lines.push("        if i == 1:".to_owned());
                        push_mark(&mut lines, 12, &["i"]);
                        lines.push("            continue".to_owned());
                    }
                }
                1 => {
                    lines.push("    if c % 2 == 0:".to_owned());
                    push_mark(&mut lines, 8, &["c"]);
                    lines.push("    else:".to_owned());
                    push_mark(&mut lines, 8, &["a"]);
                }
                2 if !funcs.is_empty() => {
                    let callee = funcs[rng.usize(funcs.len())].clone();
                    lines.push(format!("    e = {callee}(c, {})", rng.range(0, 3)));
                    push_mark(&mut lines, 4, &["e"]);
                }
                3 => {
                    lines.push("    xs = [k * c for k in range(3)]".to_owned());
                    push_mark(&mut lines, 4, &["c"]);
                    lines.push("    c = len(xs) + c".to_owned());
                }
                4 => {
                    lines.push("    def inner(q):".to_owned());
                    lines.push("        r = q + a".to_owned());
                    push_mark(&mut lines, 8, &["q", "r"]);
                    lines.push("        return r".to_owned());
                    lines.push("    c = inner(c)".to_owned());
                }
                5 => {
                    lines.push("    c = sorted([c, a, b], key = lambda v: -v)[0]".to_owned());
                    push_mark(&mut lines, 4, &["c"]);
                }
                6 => {
                    lines.push("    glist.append(c)".to_owned());
                    push_mark(&mut lines, 4, &["c"]);
                }
                _ => {
                    lines.push("    c = c + 1".to_owned());
                    push_mark(&mut lines, 4, &["c"]);
                }
            }
        }
        lines.push("    return c".to_owned());
        funcs.push(name);
    }
    // A def whose parameter / local carry the names of module variables (a list that is read again
    // at the end, an int that is re-assigned, and one assigned only later), and a helper that fails
    // a few frames deep.
    let shadow = rng.chance(2, 3);
    if shadow {
        lines.push("def shadow(glist, g0 = 5):".to_owned());
        lines.push("    late = len(glist) + g0".to_owned());
        push_mark(&mut lines, 4, &["g0", "late"]);
        lines.push("    glist = glist + [late]".to_owned());
        push_mark(&mut lines, 4, &["late"]);
        lines.push("    emit(glist)".to_owned());
        lines.push("    return late".to_owned());
        lines.push(format!("g0 = g0 + shadow([7, 8, 9], {})", rng.range(1, 6)));
        push_mark(&mut lines, 0, &["g0"]);
        lines.push("emit(glist)".to_owned());
    }
    // A local that is assigned in an untaken branch only, under the name of a module variable.
    lines.push("def maybe_g(cnd):".to_owned());
    lines.push("    zq = 1 if cnd else 2".to_owned());
    push_mark(&mut lines, 4, &["zq"]);
    absent.push((lines.len() as u32, "glist".to_owned()));
    lines.push("    if cnd:".to_owned());
    lines.push("        glist = [0]".to_owned());
    push_mark(&mut lines, 4, &["zq"]);
    lines.push("    return len(glist)".to_owned());
    lines.push("def fail_in(n):".to_owned());
    lines.push("    if n == 0:".to_owned());
    lines.push("        return [n] + 1".to_owned());
    lines.push("    return fail_in(n - 1) + [n]".to_owned());
    // A def with annotated parameters and return type (run-time type checks are instrumented too).
    let typed = rng.chance(2, 3);
    if typed {
        lines.push("def ftyped(p: int, q: str = \"s\", r: list[int] = [1]) -> int:".to_owned());
        lines.push("    t = p + len(q) + len(r)".to_owned());
        push_mark(&mut lines, 4, &["p", "t"]);
        lines.push("    return t".to_owned());
        lines.push(format!("g0 = g0 + ftyped({}, \"ab\")", rng.range(0, 5)));
        push_mark(&mut lines, 0, &["g0"]);
    }
    let nt = 2 + rng.usize(5);
    for t in 0..nt {
        let f = funcs[rng.usize(funcs.len())].clone();
        match rng.below(6) {
            0 => {
                lines.push(format!("for j in range({}):", 1 + rng.below(3)));
                lines.push(format!("    w = {f}(j)"));
                push_mark(&mut lines, 4, &["j", "w"]);
            }
            1 => {
                lines.push(format!("v{t} = [{f}(k) for k in range(2)]"));
                push_mark(&mut lines, 0, &["g0"]);
            }
            2 => {
                lines.push(format!("if {f}({}) > 5:", rng.range(0, 5)));
                push_mark(&mut lines, 4, &["g0"]);
                lines.push("else:".to_owned());
                push_mark(&mut lines, 4, &["g0"]);
            }
            3 => {
                lines.push(format!("g0 = g0 + {f}(1, b = {})", rng.range(0, 4)));
                push_mark(&mut lines, 0, &["g0"]);
            }
            4 if rng.chance(1, 3) => {
                // A failing tail: errors must be identical under instrumentation too.
                if typed && rng.bool() {
                    let bad = *rng.pick(&["ftyped(\"bad\", \"x\")", "ftyped(1, 2)", "ftyped(1, \"x\", [\"y\"])", "ftyped(None)"]);
                    lines.push(format!("u{t} = {bad}"));
                } else if rng.chance(1, 3) {
                    // `glist` is a local of maybe_g that is never assigned on this path.
                    lines.push(format!("u{t} = [maybe_g(True), maybe_g(False)]"));
                } else if rng.bool() {
                    // The error is raised a few frames deep, inside running defs.
                    lines.push(format!("u{t} = [{f}(1), fail_in({})]", rng.range(0, 4)));
                } else {
                    lines.push(format!("u{t} = {f}(1) + None"));
                }
                push_mark(&mut lines, 0, &[]);
            }
            _ => {
                lines.push(format!("u{t} = {f}({})", rng.range(0, 9)));
                push_mark(&mut lines, 0, &[&format!("u{t}")]);
            }
        }
    }
    if shadow {
        lines.push("late = g0 * 2".to_owned());
        push_mark(&mut lines, 0, &["late"]);
        lines.push("emit(late)".to_owned());
    }
    lines.push("emit(g0, glist)".to_owned());
    (lines.join("\n") + "\n", markers, absent)
}

/// Does the statement on this (1-based) line get a synthetic GC safepoint statement in front of it?
/// (module level, or nested only inside module-level `if`/`else` blocks - not inside `for` or `def`).
fn is_gc_line(text: &str, line: u32) -> bool {
    let lines: Vec<&str> = text.lines().collect();
    let idx = line as usize - 1;
    let indent = |l: &str| l.len() - l.trim_start().len();
    let mut cur = indent(lines[idx]);
    let mut i = idx;
    while cur > 0 && i > 0 {
        i -= 1;
        let l = lines[i];
        if l.trim().is_empty() {
            continue;
        }
        if indent(l) < cur {
            let t = l.trim_start();
            if !(t.starts_with("if ") || t.starts_with("else:") || t.starts_with("elif ")) {
                return false;
            }
            cur = indent(l);
        }
    }
    true
}

struct RunOut {
    transcript: Vec<String>,
    result: String,
    /// What freezing the module after the evaluation gave.
    frozen: String,
}

fn eval_with<F: FnOnce(&mut Evaluator) -> Option<String>>(text: &str, setup: F, after_profile: bool, second: bool) -> RunOut {
    kit::ctx_reset();
    let mut result = String::new();
    let mut frozen = String::new();
    Module::with_temp_heap(|module| {
        let mut eval = Evaluator::new(&module);
        let note = setup(&mut eval);
        match kit::parse(FILE, text) {
            Err(e) => result = format!("parse-error {e}"),
            Ok(ast) => match eval.eval_module(ast, kit::globals()) {
                Ok(v) => result = format!("ok {}", kit::encode(v)),
                Err(e) => result = format!("error[{}] {}", kit::error_kind(&e), kit::error_text(&e)),
            },
        }
        if after_profile {
            // Generating the profile must work (retained modes are obtained from the frozen module instead).
            match eval.gen_profile() {
                Ok(_) => {}
                Err(e) => {
                    let t = format!("{e}");
                    if !t.contains("Retained memory profiling") {
                        result += &format!(" ; gen_profile failed: {t}");
                    }
                }
            }
        }
        if let Some(n) = note {
            let _ = n;
        }
        // A second evaluation on the same evaluator (after the profile has been collected): the
        // evaluator stays usable and behaves as without instrumentation.
        if second {
        match kit::parse("second.star", "emit(\"second\", fn0(1), g0)\ndef again(q):\n    return [q, fn0(q)]\nemit(again(2))\n") {
            Err(e) => result += &format!(" ; second parse-error {e}"),
            Ok(ast) => match eval.eval_module(ast, kit::globals()) {
                Ok(v) => result += &format!(" ; second ok {}", kit::encode(v)),
                Err(e) => result += &format!(" ; second error[{}] {}", kit::error_kind(&e), kit::clip(&kit::error_text(&e))),
            },
        }
        }
        drop(eval);
        // Freezing must work whatever was instrumented and however the evaluation ended; the
        // retained-memory profiles are produced here.
        match module.freeze() {
            Ok(fm) => {
                if let Ok(p) = fm.heap_profile() {
                    let _ = p.gen_csv();
                    let _ = p.gen_flame_data();
                }
                let mut names: Vec<String> = fm.names().map(|n| n.as_str().to_owned()).collect();
                names.sort();
                frozen = format!("frozen names {}", names.len());
            }
            Err(e) => frozen = format!("freeze failed: {e:?}"),
        }
    });
    RunOut { transcript: kit::take_transcript(), result, frozen }
}

/// Marker ids in execution order, parsed from a transcript.
fn marker_sequence(t: &[String]) -> Vec<u32> {
    t.iter()
        .filter_map(|l| l.strip_prefix("mark ").and_then(|r| r.split(',').next()).and_then(|x| x.trim().parse::<u32>().ok()))
        .collect()
}

#[derive(Debug)]
enum Event {
    Stopped,
    Done(Vec<String>, String),
}

#[derive(Debug)]
struct Client {
    tx: Mutex<mpsc::Sender<Event>>,
}

impl DapAdapterClient for Client {
    fn event_stopped(&self) -> starlark::Result<()> {
        let _ = self.tx.lock().unwrap().send(Event::Stopped);
        Ok(())
    }
}

fn bp_args(lines: &[(u32, Option<String>)]) -> SetBreakpointsArguments {
    SetBreakpointsArguments {
        breakpoints: Some(
            lines
                .iter()
                .map(|(l, c)| SourceBreakpoint { column: None, condition: c.clone(), hit_condition: None, line: *l as i64, log_message: None })
                .collect(),
        ),
        lines: None,
        source: Source { adapter_data: None, checksums: None, name: None, origin: None, path: Some(FILE.to_owned()), presentation_hint: None, source_reference: None, sources: None },
        source_modified: None,
    }
}

struct DebugOut {
    transcript: Vec<String>,
    result: String,
    /// Lines at which the evaluation stopped, in order.
    stops: Vec<u32>,
    problems: Vec<(String, String)>,
    hang: bool,
    stats: BTreeMap<String, u64>,
    /// (number of stops so far, line, variables shown) for stops on marker lines.
    vars: Vec<(usize, u32, BTreeMap<String, String>)>,
    /// (number of stops so far, new breakpoint lines) for breakpoint changes made at stops.
    bp_changes: Vec<(usize, Vec<u32>)>,
}

/// One debug session. `script` is a JSON object describing the client's behaviour.
fn debug_session(text: &str, markers: &[(u32, u32)], script: &Json) -> DebugOut {
    let (tx, rx) = mpsc::channel::<Event>();
    let client = Box::new(Client { tx: Mutex::new(tx.clone()) });
    let (adapter, hook) = prepare_dap_adapter(client);
    let adapter: Box<dyn DapAdapter> = Box::new(adapter);
    let hook: Box<dyn DapAdapterEvalHook> = Box::new(hook);
    let mut out = DebugOut { transcript: vec![], result: String::new(), stops: vec![], problems: vec![], hang: false, stats: BTreeMap::new(), vars: vec![], bp_changes: vec![] };
    let mut rng = Rng::new(script["seed"].as_u64().unwrap_or(1));
    let marker_lines: Vec<u32> = markers.iter().map(|m| m.1).collect();
    let line_to_id: BTreeMap<u32, u32> = markers.iter().map(|m| (m.1, m.0)).collect();
    let ast = match kit::parse(FILE, text) {
        Ok(a) => a,
        Err(e) => {
            out.result = format!("parse-error {e}");
            return out;
        }
    };
    // Initial breakpoints.
    let mode = script["mode"].as_str().unwrap_or("breakpoints");
    let mut bps: Vec<(u32, Option<String>)> = Vec::new();
    match mode {
        "step" => {
            if let Some(l) = marker_lines.first() {
                bps.push((*l, None));
            }
        }
        "mixed" => {
            let p = script["bp_percent"].as_u64().unwrap_or(50);
            for l in &marker_lines {
                if rng.below(100) < p {
                    bps.push((*l, None));
                }
            }
        }
        _ => {
            let p = script["bp_percent"].as_u64().unwrap_or(50);
            for l in &marker_lines {
                if rng.below(100) < p {
                    let cond = match rng.below(10) {
                        0 => Some("g0 > 0".to_owned()),
                        1 => Some("1 == 2".to_owned()),
                        2 => Some("undefined_zz + 1".to_owned()),
                        _ => None,
                    };
                    let cond = if script["no_conditions"].as_bool().unwrap_or(false) { None } else { cond };
                    bps.push((*l, cond));
                }
            }
        }
    }
    let set_bps = |ad: &dyn DapAdapter, bps: &[(u32, Option<String>)], out: &mut DebugOut| match resolve_breakpoints(&bp_args(bps), &ast) {
        Ok(r) => {
            if let Err(e) = ad.set_breakpoints(FILE, &r) {
                out.problems.push(("debugger-request-failed".to_owned(), format!("set_breakpoints: {e}")));
            }
        }
        Err(e) => out.problems.push(("debugger-request-failed".to_owned(), format!("resolve_breakpoints: {e}"))),
    };
    set_bps(adapter.as_ref(), &bps, &mut out);
    // The client also tells the adapter that another source file has no breakpoints (an editor
    // does that for every open file): this must not touch the breakpoints of this file.
    let other_ast = kit::parse("other.star", "other_x = 1\n").ok();
    let clear_other = |ad: &dyn DapAdapter, out: &mut DebugOut| {
        if let Some(oa) = &other_ast {
            match resolve_breakpoints(&bp_args(&[]), oa) {
                Ok(r) => {
                    if let Err(e) = ad.set_breakpoints("other.star", &r) {
                        out.problems.push(("debugger-request-failed".to_owned(), format!("set_breakpoints(other file): {e}")));
                    }
                }
                Err(e) => out.problems.push(("debugger-request-failed".to_owned(), format!("resolve_breakpoints(other file): {e}"))),
            }
        }
    };
    let other_file = script["other_file_empty"].as_bool().unwrap_or(false);
    if other_file {
        clear_other(adapter.as_ref(), &mut out);
    }
    let mut last_resume_continue = true;
    let text_owned = text.to_owned();
    let tx2 = tx.clone();
    let trace: Arc<Mutex<Vec<(u32, usize)>>> = Arc::new(Mutex::new(Vec::new()));
    let trace2 = trace.clone();
    // (index into the trace of the statement stopped at, how the client resumed: 0 = continue,
    // 1 = step into, 2 = step over, 3 = step out)
    let mut resumed: Option<(usize, u8)> = None;
    let mut detached = false;
    let eval_thread = std::thread::Builder::new()
        .stack_size(64 << 20)
        .spawn(move || {
            kit::ctx_reset();
            let mut result = String::new();
            let r = std::panic::catch_unwind(std::panic::AssertUnwindSafe(|| {
                Module::with_temp_heap(|module| {
                    let mut eval = Evaluator::new(&module);
                    // The recorder comes first: at a stop the last recorded statement is the one
                    // the debugger stopped at.
                    eval.before_stmt_for_dap(BeforeStmtFunc::from_dyn(Box::new(TraceHook { log: trace2 })));
                    hook.add_dap_hooks(&mut eval);
                    match kit::parse(FILE, &text_owned) {
                        Err(e) => result = format!("parse-error {e}"),
                        Ok(ast) => match eval.eval_module(ast, kit::globals()) {
                            Ok(v) => result = format!("ok {}", kit::encode(v)),
                            Err(e) => result = format!("error[{}] {}", kit::error_kind(&e), kit::error_text(&e)),
                        },
                    }
                });
            }));
            if r.is_err() {
                result = format!("PANIC in the evaluation thread: {}", take_last_panic().unwrap_or_default());
            }
            let _ = tx2.send(Event::Done(kit::take_transcript(), result));
        })
        .expect("spawn eval thread");
    let detach_at = script["detach_at_stop"].as_u64();
    let max_stops = script["max_stops"].as_u64().unwrap_or(400);
    let mut adapter = Some(adapter);
    let mut late_request: Option<std::thread::JoinHandle<(bool, String)>> = None;
    loop {
        match rx.recv_timeout(Duration::from_secs(20)) {
            Err(_) => {
                out.hang = true;
                out.problems.push(("hang".to_owned(), "no event from the evaluation for 20 s".to_owned()));
                break;
            }
            Ok(Event::Done(t, r)) => {
                out.transcript = t;
                out.result = r;
                if let (Some((p, kind)), false) = (resumed, detached) {
                    let tr = trace.lock().unwrap();
                    if kind != 0 && p < tr.len() {
                        let d = tr[p].1;
                        if let Some(e) = tr[p + 1..].iter().find(|e| match kind {
                            1 => true,
                            2 => e.1 <= d,
                            _ => e.1 < d,
                        }) {
                            out.problems.push(("debugger-step-wrong".to_owned(), format!("after step kind {kind} at line {} (depth {d}) the program ran to its end, past line {} (depth {})", tr[p].0, e.0, e.1)));
                        } else {
                            *out.stats.entry("steps_checked_to_the_end".to_owned()).or_insert(0) += 1;
                        }
                    }
                }
                break;
            }
            Ok(Event::Stopped) => {
                let Some(ad) = adapter.as_ref() else { continue };
                *out.stats.entry("stops".to_owned()).or_insert(0) += 1;
                let n = out.stops.len() as u64;
                // Where are we?
                let line = match ad.top_frame() {
                    Ok(Some(f)) => f.line as u32,
                    Ok(None) => 0,
                    Err(e) => {
                        out.problems.push(("debugger-request-failed".to_owned(), format!("top_frame at stop {n}: {e}")));
                        0
                    }
                };
                out.stops.push(line);
                // Stepping: the stop must be the FIRST statement after the previous stop which the
                // requested kind of step selects (into: any; over: call stack not deeper than at the
                // request; out: shallower) - or a breakpoint.
                {
                    let tr = trace.lock().unwrap();
                    let q = tr.len().saturating_sub(1);
                    if let Some((p, kind)) = resumed {
                        if q <= p || p >= tr.len() {
                            out.problems.push(("debugger-step-wrong".to_owned(), format!("stop {n}: no statement was started since the previous stop (trace index {p} -> {q})")));
                        } else {
                            let d = tr[p].1;
                            let sel = |e: &(u32, usize)| match kind {
                                1 => true,
                                2 => e.1 <= d,
                                3 => e.1 < d,
                                _ => false,
                            };
                            let has_bp = |e: &(u32, usize)| e.0 != 0 && bps.iter().any(|b| b.0 == e.0);
                            if let Some(r) = (p + 1..q).find(|r| sel(&tr[*r])) {
                                out.problems.push(("debugger-step-wrong".to_owned(), format!("stop {n}: after step kind {kind} at line {} (depth {d}) the program ran past line {} (depth {}) and stopped at line {} (depth {})", tr[p].0, tr[r].0, tr[r].1, tr[q].0, tr[q].1)));
                            } else if kind != 0 && !sel(&tr[q]) && !has_bp(&tr[q]) {
                                out.problems.push(("debugger-step-wrong".to_owned(), format!("stop {n}: after step kind {kind} at line {} (depth {d}) the program stopped at line {} (depth {}) which the step does not select and where no breakpoint is", tr[p].0, tr[q].0, tr[q].1)));
                            } else if kind != 0 {
                                *out.stats.entry(format!("steps_checked_kind_{kind}")).or_insert(0) += 1;
                            }
                        }
                    }
                    if std::env::var_os("VERIF_DEBUG_STEPS").is_some() {
                        eprintln!("STOP n={n} line={line} trace_index={q} entry={:?} previous={resumed:?}", tr.get(q));
                    }
                    resumed = Some((q, 0));
                }
                // After `continue` the program may only stop where a breakpoint is set.
                if mode == "mixed" && last_resume_continue && !bps.iter().any(|b| b.0 == line) {
                    out.problems.push(("debugger-stop-without-reason".to_owned(), format!("stop {n} at line {line} after `continue`, breakpoints are on lines {:?}", bps.iter().map(|b| b.0).collect::<Vec<_>>())));
                }
                // At every stop: the stack trace, the top frame against it, the variables of every frame.
                match ad.stack_trace(StackTraceArguments { format: None, levels: None, start_frame: None, thread_id: 0 }) {
                    Err(e) => out.problems.push(("debugger-request-failed".to_owned(), format!("stack_trace at stop {n}: {e}"))),
                    Ok(st) => {
                        if st.stack_frames.len() >= 2 {
                            if let Ok(Some(tf)) = ad.top_frame() {
                                let f0 = &st.stack_frames[0];
                                if tf.name != f0.name || tf.line != f0.line {
                                    out.problems.push(("debugger-top-frame-wrong".to_owned(), format!("stop {n}: top_frame is `{}` line {}, the stack trace starts with `{}` line {}", tf.name, tf.line, f0.name, f0.line)));
                                }
                            }
                        }
                        for fid in 0..st.stack_frames.len() {
                            if let Err(e) = ad.variables(fid) {
                                out.problems.push(("debugger-request-failed".to_owned(), format!("variables({fid}) at stop {n}: {e}")));
                            }
                            let _ = ad.scopes(fid);
                            *out.stats.entry("frames_inspected".to_owned()).or_insert(0) += 1;
                        }
                    }
                }
                // Requests drawn by the client script.
                let nreq = rng.below(4);
                for _ in 0..nreq {
                    match rng.below(6) {
                        0 => {
                            if let Err(e) = ad.stack_trace(StackTraceArguments { format: None, levels: None, start_frame: None, thread_id: 0 }) {
                                out.problems.push(("debugger-request-failed".to_owned(), format!("stack_trace: {e}")));
                            }
                        }
                        1 => {
                            let _ = ad.scopes(0);
                        }
                        2 => {
                            let _ = ad.evaluate("[g0, len(glist)]");
                            let _ = ad.evaluate("1 +");
                            let _ = ad.evaluate("undefined_name_q");
                            *out.stats.entry("evaluate_requests".to_owned()).or_insert(0) += 3;
                        }
                        3 => {
                            let _ = ad.inspect_variable(0, VariablePath::new_local("glist"));
                            let _ = ad.inspect_variable(0, VariablePath::new_expression("glist"));
                        }
                        _ => {
                            let _ = ad.variables(0);
                        }
                    }
                }
                // The variables shown at a marker stop are the values the marker then emits.
                if line_to_id.contains_key(&line) {
                    match ad.variables(0) {
                        Ok(v) => {
                            let shown: BTreeMap<String, String> = v.locals.iter().map(|x| (x.name.to_string(), x.value.clone())).collect();
                            // `evaluate NAME` answers what the variables view shows (numbers only:
                            // the two requests render other values differently).
                            for (name, val) in shown.iter().filter(|(_, v)| v.parse::<i64>().is_ok()).take(3) {
                                if let Ok(info) = ad.evaluate(name) {
                                    *out.stats.entry("evaluate_vs_variables".to_owned()).or_insert(0) += 1;
                                    if info.result != *val {
                                        out.problems.push(("debugger-evaluate-wrong".to_owned(), format!("stop {n} at line {line}: evaluate(`{name}`) = `{}` but variables shows `{val}`", info.result)));
                                    }
                                }
                            }
                            out.stops_vars_push(line, shown);
                        }
                        Err(e) => out.problems.push(("debugger-request-failed".to_owned(), format!("variables at stop {n}: {e}"))),
                    }
                }
                // Change the breakpoint set at some stops.
                if mode == "breakpoints" && !script["no_conditions"].as_bool().unwrap_or(false) && rng.chance(1, 6) {
                    let p = 20 + rng.below(70);
                    bps = marker_lines.iter().filter(|_| rng.below(100) < p).map(|l| (*l, None)).collect();
                    out.bp_changes.push((out.stops.len(), bps.iter().map(|b| b.0).collect()));
                    set_bps(ad.as_ref(), &bps, &mut out);
                    if other_file {
                        clear_other(ad.as_ref(), &mut out);
                    }
                }
                let ad = adapter.as_ref().unwrap();
                if Some(n) == detach_at {
                    // Fault: the debugger goes away while the program is stopped.
                    *out.stats.entry("detaches".to_owned()).or_insert(0) += 1;
                    adapter = None;
                    detached = true;
                    continue;
                }
                if out.stops.len() as u64 >= max_stops {
                    // Enough: clear breakpoints and let it run.
                    set_bps(ad.as_ref(), &[], &mut out);
                    bps.clear();
                    out.bp_changes.push((out.stops.len(), vec![]));
                    let _ = adapter.as_ref().unwrap().continue_();
                    continue;
                }
                last_resume_continue = mode != "step";
                let r = match mode {
                    "mixed" => match rng.below(4) {
                        0 => {
                            last_resume_continue = false;
                            resumed = resumed.map(|(q, _)| (q, 1));
                            ad.step(StepKind::Into)
                        }
                        1 => {
                            last_resume_continue = false;
                            resumed = resumed.map(|(q, _)| (q, 2));
                            ad.step(StepKind::Over)
                        }
                        2 => {
                            last_resume_continue = false;
                            resumed = resumed.map(|(q, _)| (q, 3));
                            ad.step(StepKind::Out)
                        }
                        _ => ad.continue_(),
                    },
                    "step" => {
                        let kind = match script["step_kind"].as_str().unwrap_or("into") {
                            "over" => StepKind::Over,
                            "out" => StepKind::Out,
                            "mixed" => *rng.pick(&[StepKind::Into, StepKind::Over, StepKind::Out]),
                            _ => StepKind::Into,
                        };
                        resumed = resumed.map(|(q, _)| (q, match kind {
                            StepKind::Into => 1,
                            StepKind::Over => 2,
                            StepKind::Out => 3,
                        }));
                        ad.step(kind)
                    }
                    _ => ad.continue_(),
                };
                if let Err(e) = r {
                    out.problems.push(("debugger-request-failed".to_owned(), format!("resume at stop {n}: {e}")));
                }
                // Fault: a request issued while the program runs; it must return (answered at a
                // later stop, or an error when the session ends), never hang.
                if script["late_request"].as_bool().unwrap_or(false) && late_request.is_none() && rng.chance(1, 3) {
                    // `DapAdapter` is Send: move a request into a helper thread via a scoped borrow is not
                    // possible with a Box we still use, so issue it right before the adapter is dropped below.
                    *out.stats.entry("late_request_armed".to_owned()).or_insert(0) += 1;
                }
            }
        }
    }
    // Late request: after the evaluation has ended, requests must fail cleanly, not hang.
    if let Some(ad) = adapter.take() {
        let h = std::thread::spawn(move || match ad.top_frame() {
            Ok(_) => (true, String::new()),
            Err(e) => (false, format!("{e}")),
        });
        late_request = Some(h);
    }
    if let Some(h) = late_request {
        let start = std::time::Instant::now();
        while !h.is_finished() && start.elapsed() < Duration::from_secs(20) {
            std::thread::sleep(Duration::from_millis(1));
        }
        if h.is_finished() {
            if let Ok((ok, _)) = h.join() {
                *out.stats.entry(if ok { "late_request_answered".to_owned() } else { "late_request_failed_cleanly".to_owned() }).or_insert(0) += 1;
            }
        } else {
            out.hang = true;
            out.problems.push(("hang".to_owned(), "a request issued after the evaluation ended never returned".to_owned()));
        }
    }
    if !out.hang {
        let _ = eval_thread.join();
    }
    out
}

// Extra per-session records kept outside the struct literal above.
impl DebugOut {
    fn stops_vars_push(&mut self, line: u32, shown: BTreeMap<String, String>) {
        self.vars.push((self.stops.len(), line, shown));
    }
}

/// Records every statement the instrumented evaluation starts: (line, call-stack depth).
struct TraceHook {
    log: Arc<Mutex<Vec<(u32, usize)>>>,
}

impl<'e> BeforeStmtFuncDyn<'e> for TraceHook {
    fn call<'v>(&mut self, span: FileSpanRef, continued: bool, eval: &mut Evaluator<'v, '_, 'e>) -> starlark::Result<()> {
        if !continued {
            let line = if span.filename() == FILE { span.resolve_span().begin.line as u32 + 1 } else { 0 };
            self.log.lock().unwrap().push((line, eval.call_stack_count()));
        }
        Ok(())
    }
}

struct CountingHook {
    counts: Arc<Mutex<BTreeMap<u32, (u64, u64)>>>,
}

impl<'e> BeforeStmtFuncDyn<'e> for CountingHook {
    fn call<'v>(&mut self, span: FileSpanRef, continued: bool, _eval: &mut Evaluator<'v, '_, 'e>) -> starlark::Result<()> {
        if span.filename() == FILE {
            let line = span.resolve_span().begin.line as u32 + 1;
            let mut c = self.counts.lock().unwrap();
            let e = c.entry(line).or_insert((0, 0));
            if continued {
                e.1 += 1;
            } else {
                e.0 += 1;
            }
        }
        Ok(())
    }
}

const PROFILE_MODES: &[(&str, ProfileMode)] = &[
    ("HeapSummaryAllocated", ProfileMode::HeapSummaryAllocated),
    ("HeapSummaryRetained", ProfileMode::HeapSummaryRetained),
    ("HeapFlameAllocated", ProfileMode::HeapFlameAllocated),
    ("HeapFlameRetained", ProfileMode::HeapFlameRetained),
    ("HeapAllocated", ProfileMode::HeapAllocated),
    ("HeapRetained", ProfileMode::HeapRetained),
    ("Statement", ProfileMode::Statement),
    ("Coverage", ProfileMode::Coverage),
    ("Bytecode", ProfileMode::Bytecode),
    ("BytecodePairs", ProfileMode::BytecodePairs),
    ("TimeFlame", ProfileMode::TimeFlame),
    ("Typecheck", ProfileMode::Typecheck),
    ("None", ProfileMode::None),
];

impl World for C18 {
    fn id(&self) -> &'static str {
        "C18"
    }

    fn describe(&self) -> Describe {
        Describe {
            level: "exploration",
            rule: "case = generated program with marker statements (nested defs, loops, comprehensions, branches, native callbacks, optional failing tail) x {each of the 13 ProfileModes + gen_profile, a counting statement hook, 2-4 debugger sessions with breakpoints on seeded subsets of marker lines incl. conditional and failing conditions and breakpoint changes at stops, single-step sessions Into / Over / Out / mixed}; debugger sessions are driven by a simulated client in lock-step with the evaluation thread, with seeded detach-at-stop and request-after-end faults; non-trivial = at least one debugger stop happened; distinct = digest of (program, session scripts)",
            sim_time_unit: "debugger stops handled + instrumented evaluations",
            real_components: vec!["evaluator instrumentation (before_stmt, bytecode statement locations)", "all ProfileModes and gen_profile", "DAP adapter (prepare_dap_adapter, resolve_breakpoints, with_ctx/inject channel protocol, evaluate re-entering the evaluator)"],
            stub_components: vec!["debugger client (DapAdapterClient + request script drawn from the seed)", "statement hook (counting)"],
            assumptions: vec![
                "Over/Out stepping follows the adapter's documented approximation: the next statement START with a call stack not deeper (over) / shallower (out) than at the request",
                "variables(0) at a stop inside a def must contain the marker's arguments with str() equal to the emitted repr for ints",
            ],
            exhaustive: false,
        }
    }

    fn budget(&self, tier: Tier) -> Budget {
        match tier {
            Tier::Quick => Budget { runs: 600, wall_s: 120, block: 40, recheck: 16, hang_s: 120 },
            Tier::Thorough => Budget { runs: 80_000, wall_s: 1500, block: 100, recheck: 64, hang_s: 120 },
        }
    }

    fn generate(&self, seed: u64, index: u64, _tier: Tier) -> Json {
        let root = Rng::new(run_seed(seed, "C18", index));
        let mut wl = root.fork("workload");
        let mut sch = root.fork("schedule");
        let (text, markers, absent) = gen_marked(&mut wl);
        let ns = 2 + sch.usize(3);
        let mut sessions: Vec<Json> = Vec::new();
        for i in 0..ns {
            let detach = if sch.chance(1, 5) { json!(sch.below(6)) } else { Json::Null };
            sessions.push(json!({"mode": "breakpoints", "seed": sch.next_u64() >> 8, "bp_percent": *sch.pick(&[10u64, 30, 60, 100]), "detach_at_stop": detach, "late_request": i == 0, "max_stops": 300, "other_file_empty": sch.bool()}));
        }
        // Breakpoints and stepping mixed: any resume command at any stop.
        sessions.push(json!({"mode": "mixed", "seed": sch.next_u64() >> 8, "bp_percent": *sch.pick(&[20u64, 40, 70]), "max_stops": 400, "other_file_empty": sch.bool()}));
        sessions.push(json!({"mode": "step", "step_kind": "into", "seed": sch.next_u64() >> 8, "max_stops": 2000}));
        sessions.push(json!({"mode": "step", "step_kind": *sch.pick(&["over", "out", "mixed"]), "seed": sch.next_u64() >> 8, "max_stops": 2000,
                             "detach_at_stop": if sch.chance(1, 4) { json!(sch.below(10)) } else { Json::Null }}));
        json!({"text": text, "markers": markers, "absent": absent, "sessions": sessions})
    }

    fn execute(&self, case: &Json) -> Outcome {
        let mut o = Outcome::default();
        o.digest = fnv(case.to_string().as_bytes());
        let text = case["text"].as_str().unwrap_or("");
        let markers: Vec<(u32, u32)> = case["markers"]
            .as_array()
            .map(|a| a.iter().map(|m| (m[0].as_u64().unwrap_or(0) as u32, m[1].as_u64().unwrap_or(0) as u32)).collect())
            .unwrap_or_default();
        let id_to_line: BTreeMap<u32, u32> = markers.iter().map(|m| (m.0, m.1)).collect();
        // Reference.
        let reference = eval_with(text, |_| None, false, false);
        let reference2 = eval_with(text, |_| None, false, true);
        let ref_seq = marker_sequence(&reference.transcript);
        let mut log: Vec<String> = reference.transcript.clone();
        log.push(reference.result.clone());
        // Profilers.
        for (name, mode) in PROFILE_MODES {
            let r = eval_with(
                text,
                |e| {
                    let _ = e.enable_profile(mode);
                    None
                },
                true,
                true,
            );
            o.sim_time += 1;
            o.bump("configs.profile_modes", 1);
            let reference = &reference2;
            if r.transcript != reference.transcript || r.result != reference.result || r.frozen != reference.frozen {
                o.violate(
                    "instrumentation-interferes",
                    &format!("profile/{name}"),
                    format!("ProfileMode::{name}: {:?} ; result `{}` vs `{}`", kit::diff_transcripts(&reference.transcript, &r.transcript), kit::clip(&reference.result), kit::clip(&r.result)),
                );
                break;
            }
        }
        // Counting statement hook: called exactly once (continued == false) per execution of a marker statement.
        if o.violation.is_none() {
            let counts = Arc::new(Mutex::new(BTreeMap::new()));
            let c2 = counts.clone();
            let r = eval_with(
                text,
                move |e| {
                    e.before_stmt_for_dap(BeforeStmtFunc::from_dyn(Box::new(CountingHook { counts: c2 })));
                    None
                },
                false,
                false,
            );
            o.sim_time += 1;
            o.bump("configs.statement_hook", 1);
            if r.transcript != reference.transcript || r.result != reference.result {
                o.violate("instrumentation-interferes", "hook", format!("statement hook: {:?}", kit::diff_transcripts(&reference.transcript, &r.transcript)));
            } else {
                let mut executed: BTreeMap<u32, u64> = BTreeMap::new();
                for id in &ref_seq {
                    *executed.entry(id_to_line[id]).or_insert(0) += 1;
                }
                let c = counts.lock().unwrap();
                for (line, n) in &executed {
                    let got = c.get(line).map(|x| x.0).unwrap_or(0);
                    if got == 2 * *n && is_gc_line(text, *line) {
                        // Model of the recorded defect: module-level statements are announced twice
                        // (once for the synthetic GC statement, once for the statement itself).
                        o.note_known("hook-count/top-level-double", format!("statement at module-level line {line} executed {n} time(s), statement hook (continued=false) called {got} times"));
                        continue;
                    }
                    if got != *n {
                        o.violate(
                            "statement-hook-count",
                            "hook-count",
                            format!("marker statement at line {line} executed {n} time(s) but the statement hook (continued=false) was called {got} time(s)"),
                        );
                        break;
                    }
                }
            }
        }
        // Lines holding several statements (a one-line `if` / `for`, `a = 1; b = 2`): a breakpoint
        // on such a line stops once per execution of the statement the line starts with - whether
        // or not the statements after it on that line run.
        if o.violation.is_none() {
            let k = 1 + (o.digest % 3) as usize;
            let guard = if (o.digest >> 4) % 2 == 0 { 99 } else { 0 };
            let mut t = format!("g0 = 10\nglist = [1, 2]\ndef several(n):\n    if n > {guard}: mark(0, n)\n    x = 1; y = x + 1\n    for i in range(2): z = i\n    return n\n");
            for c in 0..k {
                t.push_str(&format!("several({})\n", c + 1));
            }
            let lines = [(0u32, 4u32), (1, 5), (2, 6)];
            let d = debug_session(&t, &lines, &json!({"mode": "breakpoints", "bp_percent": 100, "no_conditions": true, "seed": o.digest >> 8, "max_stops": 400}));
            o.bump("configs.debug_sessions", 1);
            o.bump("probe.sessions_on_lines_with_several_statements", 1);
            let expected: Vec<u32> = (0..k).flat_map(|_| [4u32, 5, 6]).collect();
            if d.stops != expected {
                o.violate(
                    "breakpoint-stops-wrong",
                    "stops/line-with-several-statements",
                    format!("breakpoints on lines 4, 5, 6 of `{}`: stopped at lines {:?}, expected one stop per execution of the statement each line starts with: {:?}", t.replace('\n', " | "), d.stops, expected),
                );
            }
            for (class, detail) in &d.problems {
                if o.violation.is_none() {
                    o.violate(class, "several-statements-session", detail.clone());
                }
            }
        }
        // Debugger sessions.
        let empty = Vec::new();
        for (si, script) in case["sessions"].as_array().unwrap_or(&empty).iter().enumerate() {
            if o.violation.is_some() {
                break;
            }
            let d = debug_session(text, &markers, script);
            o.sim_time += d.stops.len() as u64 + 1;
            o.bump("configs.debug_sessions", 1);
            for (k, v) in &d.stats {
                o.bump(&format!("probe.{k}"), *v);
            }
            if !d.stops.is_empty() {
                o.nontrivial = true;
            }
            if d.stops.len() >= 50 {
                o.bump("probe.sessions_with_50_or_more_stops", 1);
            }
            let what = format!("session #{si} {script}");
            log.push(format!("{what}: stops {:?}", d.stops));
            if d.hang {
                o.violate("hang", "hang", format!("{what}: {:?}", d.problems));
                break;
            }
            if d.result.starts_with("PANIC") {
                o.violate("panic", "debugger-panic", format!("{what}: {}", kit::clip(&d.result)));
                break;
            }
            if let Some((c, m)) = d.problems.iter().find(|(c, _)| c == "debugger-evaluate-wrong") {
                o.violate(c, "evaluate", format!("{what}: {m}"));
                break;
            }
            if let Some((c, m)) = d.problems.iter().find(|(c, _)| c == "debugger-stop-without-reason") {
                o.violate(c, "stop-reason", format!("{what}: {m}"));
                break;
            }
            if let Some((c, m)) = d.problems.iter().find(|(c, _)| c == "debugger-step-wrong") {
                o.violate(c, "step-selection", format!("{what}: {m}"));
                break;
            }
            if let Some((c, m)) = d.problems.iter().find(|(c, _)| c == "debugger-top-frame-wrong") {
                o.violate(c, "top-frame", format!("{what}: {m}"));
                break;
            }
            if let Some((c, m)) = d.problems.first() {
                if c == "debugger-request-failed" && script["detach_at_stop"].is_null() {
                    o.violate(c, "request", format!("{what}: {m}"));
                    break;
                }
            }
            if d.transcript != reference.transcript || d.result != reference.result {
                o.violate(
                    "instrumentation-interferes",
                    "debugger",
                    format!("{what}: {:?} ; result `{}` vs `{}`", kit::diff_transcripts(&reference.transcript, &d.transcript), kit::clip(&reference.result), kit::clip(&d.result)),
                );
                break;
            }
            let mode = script["mode"].as_str().unwrap_or("");
            let detached = !script["detach_at_stop"].is_null();
            let mut expected_exec: Vec<usize> = Vec::new();
            if mode == "breakpoints" {
                // Expected stops: simulate the reference marker sequence against the breakpoint sets,
                // once for the specified behaviour and once for the model of the recorded defect
                // (module-level statements announced twice).
                let marker_lines: Vec<u32> = markers.iter().map(|m| m.1).collect();
                let p = script["bp_percent"].as_u64().unwrap_or(50);
                let detach_at = script["detach_at_stop"].as_u64();
                let simulate = |double: bool| -> (Vec<u32>, Vec<usize>) {
                    let mut expected: Vec<u32> = Vec::new();
                    let mut exec: Vec<usize> = Vec::new();
                    let mut rng = Rng::new(script["seed"].as_u64().unwrap_or(1));
                    let mut cur: BTreeMap<u32, Option<String>> = BTreeMap::new();
                    for l in &marker_lines {
                        if rng.below(100) < p {
                            let cond = match rng.below(10) {
                                0 => Some("g0 > 0".to_owned()),
                                1 => Some("1 == 2".to_owned()),
                                2 => Some("undefined_zz + 1".to_owned()),
                                _ => None,
                            };
                            cur.insert(*l, cond);
                        }
                    }
                    let mut changes = d.bp_changes.iter().peekable();
                    let mut dead = false;
                    for (exec_i, id) in ref_seq.iter().enumerate() {
                        let line = id_to_line[id];
                        let reps = if double && is_gc_line(text, line) { 2 } else { 1 };
                        for _ in 0..reps {
                            if dead {
                                break;
                            }
                            let hit = match cur.get(&line) {
                                None => false,
                                Some(None) => true,
                                Some(Some(c)) => c != "1 == 2",
                            };
                            if hit {
                                expected.push(line);
                                exec.push(exec_i);
                                if Some(expected.len() as u64 - 1) == detach_at {
                                    dead = true;
                                }
                                while let Some((at, set)) = changes.peek() {
                                    if *at == expected.len() {
                                        cur = set.iter().map(|l| (*l, None)).collect();
                                        changes.next();
                                    } else {
                                        break;
                                    }
                                }
                            }
                        }
                    }
                    (expected, exec)
                };
                let (expected, exec_clean) = simulate(false);
                let (expected_defect, exec_defect) = simulate(true);
                expected_exec = exec_clean;
                if d.stops != expected && d.stops == expected_defect {
                    o.note_known("stops/top-level-double", format!("{what}: breakpoints on module-level statements stop twice per execution: stops {:?}, specified {:?}", d.stops, expected));
                    expected_exec = exec_defect;
                } else if d.stops != expected {
                    o.violate(
                        "breakpoint-stops-wrong",
                        "stops",
                        format!("{what}: stopped at lines {:?}, expected (from the executed markers) {:?}", d.stops, expected),
                    );
                    break;
                }
                o.bump("probe.breakpoint_stops", d.stops.len() as u64);
            } else if mode == "step" && script["step_kind"] == "into" && !detached {
                // Under step-Into every executed marker (after the first stop) is stopped at exactly once.
                let stops_on_markers: Vec<u32> = d.stops.iter().copied().filter(|l| id_to_line.values().any(|x| x == l)).collect();
                let expected: Vec<u32> = ref_seq.iter().map(|id| id_to_line[id]).collect();
                let capped = d.stops.len() as u64 >= script["max_stops"].as_u64().unwrap_or(2000);
                let expected_defect: Vec<u32> = expected.iter().flat_map(|l| if is_gc_line(text, *l) { vec![*l, *l] } else { vec![*l] }).collect();
                // The first stop is the initial breakpoint: with the defect it is hit twice as well.
                if !capped && stops_on_markers != expected && stops_on_markers == expected_defect {
                    o.note_known("step/top-level-double", format!("{what}: single-stepping stops twice on module-level statements"));
                } else if !capped && stops_on_markers != expected {
                    o.violate(
                        "step-into-misses-statement",
                        "step",
                        format!("{what}: marker lines stopped at {:?}, executed markers {:?}", stops_on_markers, expected),
                    );
                    break;
                }
                o.bump("probe.step_into_stops", d.stops.len() as u64);
            }
            // Variables shown at a stop are the values the program has at that point: the marker about
            // to execute emits exactly those values.
            if mode == "breakpoints" && o.violation.is_none() {
                let mark_lines: Vec<&String> = reference.transcript.iter().filter(|l| l.starts_with("mark ")).collect();
                let absent: Vec<(u32, String)> = case["absent"].as_array().map(|a| a.iter().filter_map(|x| Some((x[0].as_u64()? as u32, x[1].as_str()?.to_owned()))).collect()).unwrap_or_default();
                for (stop_no, line, shown) in &d.vars {
                    // A local that is not assigned yet at this point has no value to show.
                    for (al, an) in &absent {
                        if al == line {
                            o.bump("probe.unassigned_locals_checked", 1);
                            if let Some(v) = shown.get(an) {
                                // (a module variable of that name is not a local of this frame either)
                                o.violate("debugger-variable-wrong", "variables-unassigned", format!("{what}: stop {stop_no} at line {line}: `{an}` is shown as `{v}` although the function's local of that name is not assigned yet"));
                            }
                        }
                    }
                    if o.violation.is_some() {
                        break;
                    }
                    // stop_no-th stop (1-based) <-> expected_exec[stop_no - 1]-th marker execution.
                    let Some(exec_idx) = expected_exec.get(stop_no - 1) else { continue };
                    let Some(emitted) = mark_lines.get(*exec_idx) else { continue };
                    let vals: Vec<&str> = emitted[5..].split(',').collect();
                    let src_line = text.lines().nth(*line as usize - 1).unwrap_or("");
                    let args: Vec<&str> = src_line.trim().trim_start_matches("mark(").trim_end_matches(')').split(',').map(|s| s.trim()).skip(1).filter(|s| !s.is_empty()).collect();
                    let in_def = src_line.starts_with("    ");
                    for (ai, a) in args.iter().enumerate() {
                        let Some(want) = vals.get(ai + 1) else { continue };
                        match shown.get(*a) {
                            Some(v) => {
                                o.bump("probe.variables_compared", 1);
                                if v != want {
                                    o.violate("debugger-variable-wrong", "variables", format!("{what}: stop {stop_no} at line {line}: variable `{a}` shown as `{v}` but the marker then emitted `{want}`"));
                                }
                            }
                            None => {
                                if in_def && *a != "g0" {
                                    o.violate("debugger-variable-missing", "variables", format!("{what}: stop {stop_no} at line {line}: local `{a}` not shown (shown: {:?})", shown.keys().collect::<Vec<_>>()));
                                }
                            }
                        }
                    }
                }
            }
        }
        if o.violation.is_none() && !ref_seq.is_empty() {
            o.bump("probe.programs_with_failing_tail", if reference.result.starts_with("error") { 1 } else { 0 });
        }
        o.log_hash = kit::hash_lines(&log);
        o
    }

    fn shrink(&self, case: &Json) -> Vec<Json> {
        let mut out = Vec::new();
        let empty = Vec::new();
        let sessions = case["sessions"].as_array().unwrap_or(&empty);
        if sessions.len() > 1 {
            for s in sessions {
                let mut c = case.clone();
                c["sessions"] = json!([s]);
                out.push(c);
            }
        }
        out
    }
}

