//! C11 — ordered maps and sets behave as insertion-ordered sequences under any history.
//!
//! Histories of operations over `SmallMap`, `SmallSet`, `OrderedMap/Set`, `SortedMap/Set/Vec`,
//! `UnorderedMap/Set` and `Vec2` are executed against a `Vec<(K, V)>` model with linear search.
//! Keys carry an adversarial hash chosen by the simulator (all-equal, two buckets, sequential,
//! high-bits-only, ...), so collisions are the norm. The fault injected is a **panic in a user
//! callback** (`Hash`, `Eq`, `Ord`, the closures given to `retain` / `sort_by` /
//! `or_insert_with` / `and_modify`) at the n-th invocation inside an operation, which the
//! library explicitly defends against; after such a panic the model is relaxed narrowly (the
//! container may hold any duplicate-free subset of the old entries plus the entry being
//! inserted, but must be internally consistent). After every step every lookup for every key
//! of the universe is compared. Short histories around the index threshold are enumerated
//! exhaustively; long ones cross the threshold repeatedly.

use std::cell::Cell;
use std::cell::RefCell;
use std::collections::BTreeMap;
use std::collections::BTreeSet;
use std::hash::Hash;
use std::hash::Hasher;
use std::panic::AssertUnwindSafe;
use std::panic::catch_unwind;

use serde_json::Value as Json;
use serde_json::json;
use starlark_map::Hashed;
use starlark_map::StarlarkHashValue;
use starlark_map::ordered_map::OrderedMap;
use starlark_map::ordered_set::OrderedSet;
use starlark_map::small_map::SmallMap;
use starlark_map::small_set::SmallSet;
use starlark_map::sorted_map::SortedMap;
use starlark_map::sorted_set::SortedSet;
use starlark_map::sorted_vec::SortedVec;
use starlark_map::unordered_map::UnorderedMap;
use starlark_map::unordered_set::UnorderedSet;
use starlark_map::vec2::Vec2;

use crate::core::*;
use crate::rng::Rng;
use crate::rng::fnv;
use crate::rng::splitmix;

pub struct C11;

// ---------------------------------------------------------------------------------------------
// Fault plan for user callbacks

#[derive(Copy, Clone, PartialEq, Eq, Debug)]
enum Cb {
    Hash = 0,
    Eq = 1,
    Ord = 2,
    Closure = 3,
}

thread_local! {
    /// Countdown per callback kind: 0 = disarmed; n = panic at the n-th invocation from now.
    static COUNTDOWN: Cell<[u64; 4]> = const { Cell::new([0; 4]) };
    static FIRED: Cell<bool> = const { Cell::new(false) };
    static CALLS: Cell<[u64; 4]> = const { Cell::new([0; 4]) };
    static LIVE: RefCell<BTreeSet<u64>> = const { RefCell::new(BTreeSet::new()) };
    static SERIAL: Cell<u64> = const { Cell::new(0) };
    static DOUBLE_DROP: Cell<u64> = const { Cell::new(0) };
    /// 0 = disarmed; n = the n-th destructor of a tracked value from now panics.
    static DROP_COUNTDOWN: Cell<u64> = const { Cell::new(0) };
    /// 0 = disarmed; n = the n-th `clone` of a tracked value from now panics.
    static CLONE_COUNTDOWN: Cell<u64> = const { Cell::new(0) };
}

fn cb(kind: Cb) {
    let k = kind as usize;
    CALLS.with(|c| {
        let mut a = c.get();
        a[k] += 1;
        c.set(a);
    });
    let fire = COUNTDOWN.with(|c| {
        let mut a = c.get();
        if a[k] == 0 {
            return false;
        }
        a[k] -= 1;
        let f = a[k] == 0;
        c.set(a);
        f
    });
    if fire {
        FIRED.with(|f| f.set(true));
        panic!("injected panic in user callback {kind:?}");
    }
}

fn arm(kind: Option<(Cb, u64)>) {
    let mut a = [0u64; 4];
    if let Some((k, n)) = kind {
        a[k as usize] = n;
    }
    COUNTDOWN.with(|c| c.set(a));
    FIRED.with(|f| f.set(false));
}

/// Key with a simulator-chosen hash; all comparisons go through the fault plan.
#[derive(Clone, Debug)]
struct K {
    id: u32,
    h: u32,
}

impl Hash for K {
    fn hash<H: Hasher>(&self, state: &mut H) {
        cb(Cb::Hash);
        state.write_u32(self.h);
    }
}
impl PartialEq for K {
    fn eq(&self, other: &K) -> bool {
        cb(Cb::Eq);
        self.id == other.id
    }
}
impl Eq for K {}
impl PartialOrd for K {
    fn partial_cmp(&self, other: &K) -> Option<std::cmp::Ordering> {
        Some(self.cmp(other))
    }
}
impl Ord for K {
    fn cmp(&self, other: &K) -> std::cmp::Ordering {
        cb(Cb::Ord);
        self.id.cmp(&other.id)
    }
}

/// Value that tracks its own life: a double drop is recorded.
#[derive(Debug)]
struct V {
    val: i64,
    serial: u64,
}
impl V {
    fn new(val: i64) -> V {
        let serial = SERIAL.with(|s| {
            let n = s.get() + 1;
            s.set(n);
            n
        });
        LIVE.with(|l| l.borrow_mut().insert(serial));
        V { val, serial }
    }
}
impl Clone for V {
    fn clone(&self) -> V {
        let fire = CLONE_COUNTDOWN.with(|c| {
            let n = c.get();
            if n == 0 {
                false
            } else {
                c.set(n - 1);
                n == 1
            }
        });
        if fire {
            FIRED.with(|f| f.set(true));
            panic!("injected panic in clone");
        }
        V::new(self.val)
    }
}

/// Fault kind "a `clone` of a value panics" (n-th call) inside `Vec2::clone`, `SmallMap::clone`
/// and `Vec2::extend` fed by a cloning iterator: the source must be untouched, the partial copy
/// must go away without dropping anything twice, and an interrupted `extend` must hold the old
/// entries plus a prefix of the new ones.
fn clone_faults(model: &[(i64, u32)], rng: &mut Rng, o: &mut Outcome, step: usize) -> Res {
    let total = model.len();
    if total == 0 {
        return Ok(());
    }
    let which = rng.below(3);
    let nth = 1 + rng.below(2 * total as u64);
    let armed = |f: &mut dyn FnMut()| -> bool {
        FIRED.with(|f| f.set(false));
        CLONE_COUNTDOWN.with(|c| c.set(nth));
        let r = catch_unwind(AssertUnwindSafe(f));
        CLONE_COUNTDOWN.with(|c| c.set(0));
        if r.is_err() {
            let _ = take_last_panic();
        }
        r.is_err()
    };
    let live = |serial: u64| LIVE.with(|s| s.borrow().contains(&serial));
    DOUBLE_DROP.with(|d| d.set(0));
    let mut w: Vec2<V, V> = Vec2::new();
    let mut m: SmallMap<K, V> = SmallMap::new();
    for (i, (a, b)) in model.iter().enumerate() {
        w.push(V::new(*a), V::new(*b as i64));
        m.insert(key(2, i as u32), V::new(*a));
    }
    let want: Vec<(i64, i64)> = model.iter().map(|(a, b)| (*a, *b as i64)).collect();
    let panicked = match which {
        0 => armed(&mut || {
            let c = w.clone();
            drop(c);
        }),
        1 => armed(&mut || {
            let c = m.clone();
            drop(c);
        }),
        _ => {
            let src: Vec<(V, V)> = model.iter().map(|(a, b)| (V::new(*a + 1000), V::new(*b as i64))).collect();
            let p = armed(&mut || w.extend(src.iter().map(|(x, y)| (x.clone(), y.clone()))));
            let got: Vec<(i64, i64)> = w.iter().map(|(x, y)| (x.val, y.val)).collect();
            let full: Vec<(i64, i64)> = want.iter().copied().chain(model.iter().map(|(a, b)| (*a + 1000, *b as i64))).collect();
            if got.len() < want.len() || got.len() > full.len() || got[..] != full[..got.len()] || (!p && got != full) {
                return Err(format!("step {step}: after a panic in the {nth}-th clone inside Vec2::extend the container holds {got:?}, old content {want:?}"));
            }
            w.truncate(total);
            p
        }
    };
    if panicked {
        o.bump("fault.panic_in_clone", 1);
    }
    let wv: Vec<(i64, i64)> = w.iter().map(|(x, y)| (x.val, y.val)).collect();
    if wv != want || w.iter().any(|(x, y)| !live(x.serial) || !live(y.serial)) {
        return Err(format!("step {step}: after a panic in the {nth}-th clone (scenario {which}) the source Vec2 holds {wv:?} instead of {want:?}, or holds dropped values"));
    }
    let mv: Vec<i64> = m.values().map(|v| v.val).collect();
    if mv != model.iter().map(|x| x.0).collect::<Vec<_>>() || m.values().any(|v| !live(v.serial)) {
        return Err(format!("step {step}: after a panic in the {nth}-th clone (scenario {which}) the source SmallMap changed"));
    }
    drop(w);
    drop(m);
    let dd = DOUBLE_DROP.with(|d| d.replace(0));
    if dd > 0 {
        return Err(format!("step {step}: after a panic in a clone (scenario {which}, {nth}-th call) {dd} value(s) dropped twice"));
    }
    Ok(())
}
impl PartialEq for V {
    fn eq(&self, o: &V) -> bool {
        self.val == o.val
    }
}
impl Eq for V {}
impl Hash for V {
    fn hash<H: Hasher>(&self, state: &mut H) {
        state.write_i64(self.val);
    }
}
impl Drop for V {
    fn drop(&mut self) {
        let ok = LIVE.try_with(|l| l.borrow_mut().remove(&self.serial)).unwrap_or(true);
        if !ok {
            let _ = DOUBLE_DROP.try_with(|d| d.set(d.get() + 1));
        }
        let fire = DROP_COUNTDOWN
            .try_with(|c| {
                let n = c.get();
                if n == 0 {
                    false
                } else {
                    c.set(n - 1);
                    n == 1
                }
            })
            .unwrap_or(false);
        if fire && !std::thread::panicking() {
            let _ = FIRED.try_with(|f| f.set(true));
            panic!("injected panic in destructor");
        }
    }
}

/// Fault kind "a destructor panics": the same operation on a `Vec2<V, V>` and on a plain
/// `Vec<(V, V)>` (the property's reference), with the n-th destructor call panicking. Afterwards the
/// container must hold what the plain list holds, every value it holds must still be alive, and
/// nothing may be dropped twice when the container itself goes away. A second scenario does the
/// same for `SmallMap::clear` (entries + hash index).
fn destructor_faults(model: &[(i64, u32)], rng: &mut Rng, o: &mut Outcome, step: usize) -> Res {
    let total = model.len();
    let which = rng.below(4);
    let nth = 1 + rng.below(2 * total as u64 + 1);
    let l = rng.usize(total + 1);
    let md = 2 + rng.below(3) as i64;
    let cnt = [3usize, 15, 17, 24][rng.usize(4)];
    let armed = |f: &mut dyn FnMut()| -> bool {
        FIRED.with(|f| f.set(false));
        DROP_COUNTDOWN.with(|c| c.set(nth));
        let r = catch_unwind(AssertUnwindSafe(f));
        DROP_COUNTDOWN.with(|c| c.set(0));
        if r.is_err() {
            let _ = take_last_panic();
        }
        r.is_err()
    };
    let live = |serial: u64| LIVE.with(|s| s.borrow().contains(&serial));
    DOUBLE_DROP.with(|d| d.set(0));
    if which == 3 {
        let mut m: SmallMap<K, V> = SmallMap::new();
        for id in 0..cnt {
            m.insert(key(2, id as u32), V::new(id as i64));
        }
        let sub = rng.below(3);
        let panicked = match sub {
            0 => armed(&mut || m.clear()),
            1 => armed(&mut || m.retain(|_, v| v.val % md != 0)),
            _ => armed(&mut || {
                // values replaced through the entry / insert API: the old value is dropped by the caller
                for id in 0..cnt {
                    let _old = m.insert(key(2, id as u32), V::new(1000 + id as i64));
                }
            }),
        };
        if panicked {
            o.bump("fault.panic_in_destructor", 1);
        }
        let held: Vec<(u32, u64)> = m.iter().map(|(k, v)| (k.id, v.serial)).collect();
        if let Some((id, _)) = held.iter().find(|(_, sr)| !live(*sr)) {
            return Err(format!("step {step}: after a panic in the {nth}-th destructor inside SmallMap::clear / retain / insert (scenario {sub}) of {cnt} entries the map still holds key {id}, whose value has been dropped"));
        }
        if m.len() != held.len() {
            return Err(format!("step {step}: after a panic in a destructor inside SmallMap::clear / retain / insert (scenario {sub}) len() = {} but iteration yields {}", m.len(), held.len()));
        }
        for id in 0..cnt as u32 {
            let by_key = m.get(&key(2, id)).is_some();
            if by_key != held.iter().any(|(h, _)| *h == id) {
                return Err(format!("step {step}: after a panic in a destructor inside SmallMap::clear / retain / insert (scenario {sub}) of {cnt} entries lookup of key {id} says {by_key}, iteration says the opposite"));
            }
        }
        drop(m);
    } else {
        let mut w: Vec2<V, V> = Vec2::new();
        let mut p: Vec<(V, V)> = Vec::new();
        for (a, b) in model {
            w.push(V::new(*a), V::new(*b as i64));
            p.push((V::new(*a), V::new(*b as i64)));
        }
        let (name, pw, pp) = match which {
            0 => ("clear", armed(&mut || w.clear()), armed(&mut || p.clear())),
            1 => ("truncate", armed(&mut || w.truncate(l)), armed(&mut || p.truncate(l))),
            _ => ("retain", armed(&mut || w.retain(|_, y| y.val % md != 0)), armed(&mut || p.retain(|(_, y)| y.val % md != 0))),
        };
        if pw || pp {
            o.bump("fault.panic_in_destructor", 1);
        }
        if let Some((i, _)) = w.iter().enumerate().find(|(_, (x, y))| !live(x.serial) || !live(y.serial)) {
            return Err(format!("step {step}: after a panic in the {nth}-th destructor inside Vec2::{name} (of {total} entries) the container still holds entry {i}, which has been dropped"));
        }
        let wv: Vec<(i64, i64)> = w.iter().map(|(x, y)| (x.val, y.val)).collect();
        let pv: Vec<(i64, i64)> = p.iter().map(|(x, y)| (x.val, y.val)).collect();
        if wv != pv {
            return Err(format!("step {step}: after a panic in the {nth}-th destructor inside {name} (of {total} entries) Vec2 holds {wv:?}, a plain Vec holds {pv:?}"));
        }
        drop(w);
        drop(p);
    }
    let dd = DOUBLE_DROP.with(|d| d.replace(0));
    if dd > 0 {
        return Err(format!("step {step}: after a panic in a destructor (scenario {which}, {nth}-th call) {dd} value(s) dropped twice"));
    }
    Ok(())
}

fn hash_of(mode: u64, id: u32) -> u32 {
    match mode % 7 {
        0 => 1,
        1 => id % 2,
        2 => id,
        3 => (id << 27) | 1,
        4 => {
            let mut x = id as u64 + 77;
            splitmix(&mut x) as u32
        }
        5 => (id % 3) * 0x10000,
        _ => 0x8000_0000 | (id / 4),
    }
}

fn key(mode: u64, id: u32) -> K {
    K { id, h: hash_of(mode, id) }
}

/// In "explicit" mode the adversarial value is used directly as the stored hash.
fn hashed(explicit: bool, k: K) -> Hashed<K> {
    if explicit {
        Hashed::new_unchecked(StarlarkHashValue::new_unchecked(k.h), k)
    } else {
        Hashed::new(k)
    }
}

// ---------------------------------------------------------------------------------------------
// SmallMap interpreter

#[derive(Clone, Debug, PartialEq)]
enum Op {
    Insert(u32, i64),
    InsertUnique(u32, i64),
    RemoveKey(u32),
    RemoveEntry(u32),
    RemoveIndex(u32),
    Pop,
    OrInsertWith(u32, i64),
    AndModify(u32, i64),
    Retain(u32, u32),
    SortKeys,
    Reverse,
    Clear,
    Reserve(u32),
    DropIndex,
    Extend(u32, u32),
    CloneSwap,
    GetMut(u32, i64),
    ValuesMut,
    Iters,
}

impl Op {
    fn to_json(&self) -> Json {
        match self {
            Op::Insert(k, v) => json!(["insert", k, v]),
            Op::InsertUnique(k, v) => json!(["insert_unique", k, v]),
            Op::RemoveKey(k) => json!(["remove", k]),
            Op::RemoveEntry(k) => json!(["remove_entry", k]),
            Op::RemoveIndex(i) => json!(["remove_index", i]),
            Op::Pop => json!(["pop"]),
            Op::OrInsertWith(k, v) => json!(["or_insert_with", k, v]),
            Op::AndModify(k, v) => json!(["and_modify", k, v]),
            Op::Retain(m, r) => json!(["retain", m, r]),
            Op::SortKeys => json!(["sort_keys"]),
            Op::Reverse => json!(["reverse"]),
            Op::Clear => json!(["clear"]),
            Op::Reserve(n) => json!(["reserve", n]),
            Op::DropIndex => json!(["maybe_drop_index"]),
            Op::Extend(a, n) => json!(["extend", a, n]),
            Op::CloneSwap => json!(["clone_swap"]),
            Op::GetMut(k, v) => json!(["get_mut", k, v]),
            Op::ValuesMut => json!(["values_mut"]),
            Op::Iters => json!(["iters"]),
        }
    }
    fn from_json(j: &Json) -> Option<Op> {
        let a = j.as_array()?;
        let n = |i: usize| a.get(i).and_then(|x| x.as_i64()).unwrap_or(0);
        Some(match a.first()?.as_str()? {
            "insert" => Op::Insert(n(1) as u32, n(2)),
            "insert_unique" => Op::InsertUnique(n(1) as u32, n(2)),
            "remove" => Op::RemoveKey(n(1) as u32),
            "remove_entry" => Op::RemoveEntry(n(1) as u32),
            "remove_index" => Op::RemoveIndex(n(1) as u32),
            "pop" => Op::Pop,
            "or_insert_with" => Op::OrInsertWith(n(1) as u32, n(2)),
            "and_modify" => Op::AndModify(n(1) as u32, n(2)),
            "retain" => Op::Retain(n(1) as u32, n(2) as u32),
            "sort_keys" => Op::SortKeys,
            "reverse" => Op::Reverse,
            "clear" => Op::Clear,
            "reserve" => Op::Reserve(n(1) as u32),
            "maybe_drop_index" => Op::DropIndex,
            "extend" => Op::Extend(n(1) as u32, n(2) as u32),
            "clone_swap" => Op::CloneSwap,
            "get_mut" => Op::GetMut(n(1) as u32, n(2)),
            "values_mut" => Op::ValuesMut,
            "iters" => Op::Iters,
            _ => return None,
        })
    }
}

struct MapSim {
    map: SmallMap<K, V>,
    model: Vec<(u32, i64)>,
    mode: u64,
    explicit: bool,
    universe: u32,
    stats: BTreeMap<&'static str, u64>,
    crossings: u64,
    above: bool,
}

type Res = Result<(), String>;

impl MapSim {
    fn new(mode: u64, explicit: bool, universe: u32) -> MapSim {
        MapSim { map: SmallMap::new(), model: Vec::new(), mode, explicit, universe, stats: BTreeMap::new(), crossings: 0, above: false }
    }
    fn k(&self, id: u32) -> K {
        key(self.mode, id)
    }
    fn hk(&self, id: u32) -> Hashed<K> {
        hashed(self.explicit, self.k(id))
    }
    /// Indices >= 1_000_000 count from the end: 1_000_000 + k = len - 1 - k.
    fn abs_index(&self, i: u32) -> usize {
        if i >= 1_000_000 {
            (self.model.len() as i64 - 1 - (i as i64 - 1_000_000)).max(0) as usize
        } else {
            i as usize
        }
    }
    fn model_pos(&self, id: u32) -> Option<usize> {
        self.model.iter().position(|(k, _)| *k == id)
    }
    fn bump(&mut self, k: &'static str) {
        *self.stats.entry(k).or_insert(0) += 1;
    }

    /// Apply the operation to the real map (may panic on an injected fault).
    fn apply_real(&mut self, op: &Op) -> String {
        let explicit = self.explicit;
        match op {
            Op::Insert(k, v) => {
                let r = if explicit { self.map.insert_hashed(self.hk(*k), V::new(*v)) } else { self.map.insert(self.k(*k), V::new(*v)) };
                format!("{:?}", r.map(|x| x.val))
            }
            Op::InsertUnique(k, v) => {
                if self.model_pos(*k).is_some() {
                    return "skip".to_owned();
                }
                if explicit {
                    self.map.insert_hashed_unique_unchecked(self.hk(*k), V::new(*v));
                } else {
                    self.map.insert_unique_unchecked(self.k(*k), V::new(*v));
                }
                "()".to_owned()
            }
            Op::RemoveKey(k) => {
                let r = if explicit { self.map.shift_remove_hashed(self.hk(*k).as_ref()) } else { self.map.shift_remove(&self.k(*k)) };
                format!("{:?}", r.map(|x| x.val))
            }
            Op::RemoveEntry(k) => {
                let r = if explicit { self.map.shift_remove_hashed_entry(self.hk(*k).as_ref()) } else { self.map.shift_remove_entry(&self.k(*k)) };
                format!("{:?}", r.map(|(k, v)| (k.id, v.val)))
            }
            Op::RemoveIndex(i) => {
                let idx = self.abs_index(*i);
                let r = self.map.shift_remove_index(idx);
                format!("{:?}", r.map(|(k, v)| (k.id, v.val)))
            }
            Op::Pop => format!("{:?}", self.map.pop().map(|(k, v)| (k.id, v.val))),
            Op::OrInsertWith(k, v) => {
                let e = if explicit { self.map.entry_hashed(self.hk(*k)) } else { self.map.entry(self.k(*k)) };
                let r = e.or_insert_with(|| {
                    cb(Cb::Closure);
                    V::new(*v)
                });
                format!("{}", r.val)
            }
            Op::AndModify(k, v) => {
                let e = if explicit { self.map.entry_hashed(self.hk(*k)) } else { self.map.entry(self.k(*k)) };
                let r = e
                    .and_modify(|x| {
                        cb(Cb::Closure);
                        x.val += 1000;
                    })
                    .or_insert(V::new(*v));
                format!("{}", r.val)
            }
            Op::Retain(m, r) => {
                let (m, r) = ((*m).max(1), *r);
                self.map.retain(|k, v| {
                    cb(Cb::Closure);
                    v.val += 1;
                    k.id % m != r % m
                });
                "()".to_owned()
            }
            Op::SortKeys => {
                self.map.sort_keys();
                "()".to_owned()
            }
            Op::Reverse => {
                self.map.reverse();
                "()".to_owned()
            }
            Op::Clear => {
                self.map.clear();
                "()".to_owned()
            }
            Op::Reserve(n) => {
                self.map.reserve(*n as usize);
                "()".to_owned()
            }
            Op::DropIndex => {
                self.map.maybe_drop_index();
                "()".to_owned()
            }
            Op::Extend(a, n) => {
                let items: Vec<(K, V)> = (0..*n).map(|i| (self.k((a + i) % self.universe), V::new((a + i) as i64 + 500))).collect();
                if explicit {
                    // `extend` hashes with `Hash`; with explicit adversarial hashes go through insert_hashed.
                    for (k, v) in items {
                        self.map.insert_hashed(hashed(true, k), v);
                    }
                } else {
                    self.map.extend(items);
                }
                "()".to_owned()
            }
            Op::CloneSwap => {
                let c = self.map.clone();
                self.map = c;
                "()".to_owned()
            }
            Op::GetMut(k, v) => {
                let r = if explicit { self.map.get_mut_hashed(self.hk(*k).as_ref()) } else { self.map.get_mut(&self.k(*k)) };
                match r {
                    Some(x) => {
                        x.val = *v;
                        "some".to_owned()
                    }
                    None => "none".to_owned(),
                }
            }
            Op::ValuesMut => {
                for v in self.map.values_mut() {
                    v.val += 7;
                }
                for (_k, v) in self.map.iter_mut() {
                    v.val += 1;
                }
                "()".to_owned()
            }
            Op::Iters => "()".to_owned(),
        }
    }

    /// Apply the operation to the model; returns the expected return value.
    fn apply_model(&mut self, op: &Op) -> String {
        match op {
            Op::Insert(k, v) => match self.model_pos(*k) {
                Some(p) => {
                    let old = self.model[p].1;
                    self.model[p].1 = *v;
                    format!("{:?}", Some(old))
                }
                None => {
                    self.model.push((*k, *v));
                    format!("{:?}", None::<i64>)
                }
            },
            Op::InsertUnique(k, v) => {
                if self.model_pos(*k).is_some() {
                    return "skip".to_owned();
                }
                self.model.push((*k, *v));
                "()".to_owned()
            }
            Op::RemoveKey(k) => match self.model_pos(*k) {
                Some(p) => format!("{:?}", Some(self.model.remove(p).1)),
                None => format!("{:?}", None::<i64>),
            },
            Op::RemoveEntry(k) => match self.model_pos(*k) {
                Some(p) => format!("{:?}", Some(self.model.remove(p))),
                None => format!("{:?}", None::<(u32, i64)>),
            },
            Op::RemoveIndex(i) => {
                let i = &(self.abs_index(*i) as u32);
                if (*i as usize) < self.model.len() {
                    format!("{:?}", Some(self.model.remove(*i as usize)))
                } else {
                    format!("{:?}", None::<(u32, i64)>)
                }
            }
            Op::Pop => format!("{:?}", self.model.pop()),
            Op::OrInsertWith(k, v) => match self.model_pos(*k) {
                Some(p) => format!("{}", self.model[p].1),
                None => {
                    self.model.push((*k, *v));
                    format!("{v}")
                }
            },
            Op::AndModify(k, v) => match self.model_pos(*k) {
                Some(p) => {
                    self.model[p].1 += 1000;
                    format!("{}", self.model[p].1)
                }
                None => {
                    self.model.push((*k, *v));
                    format!("{v}")
                }
            },
            Op::Retain(m, r) => {
                let (m, r) = ((*m).max(1), *r);
                for e in self.model.iter_mut() {
                    e.1 += 1;
                }
                self.model.retain(|(k, _)| k % m != r % m);
                "()".to_owned()
            }
            Op::SortKeys => {
                self.model.sort_by_key(|(k, _)| *k);
                "()".to_owned()
            }
            Op::Reverse => {
                self.model.reverse();
                "()".to_owned()
            }
            Op::Clear => {
                self.model.clear();
                "()".to_owned()
            }
            Op::Extend(a, n) => {
                for i in 0..*n {
                    let k = (a + i) % self.universe;
                    let v = (a + i) as i64 + 500;
                    match self.model_pos(k) {
                        Some(p) => self.model[p].1 = v,
                        None => self.model.push((k, v)),
                    }
                }
                "()".to_owned()
            }
            Op::GetMut(k, v) => match self.model_pos(*k) {
                Some(p) => {
                    self.model[p].1 = *v;
                    "some".to_owned()
                }
                None => "none".to_owned(),
            },
            Op::ValuesMut => {
                for e in self.model.iter_mut() {
                    e.1 += 8;
                }
                "()".to_owned()
            }
            Op::Reserve(_) | Op::DropIndex | Op::CloneSwap | Op::Iters => "()".to_owned(),
        }
    }

    /// Strict check: the map equals the model for every observable.
    fn check(&mut self, deep: bool) -> Res {
        let m = &self.map;
        if m.len() != self.model.len() {
            return Err(format!("len {} vs model {}", m.len(), self.model.len()));
        }
        if m.is_empty() != self.model.is_empty() {
            return Err("is_empty disagrees".to_owned());
        }
        let actual: Vec<(u32, i64)> = m.iter().map(|(k, v)| (k.id, v.val)).collect();
        if actual != self.model {
            return Err(format!("iteration order {:?} vs model {:?}", actual, self.model));
        }
        for (i, (k, v)) in self.model.iter().enumerate() {
            match m.get_index(i) {
                Some((kk, vv)) if kk.id == *k && vv.val == *v => {}
                other => return Err(format!("get_index({i}) = {:?}, model ({k},{v})", other.map(|(a, b)| (a.id, b.val)))),
            }
        }
        if m.get_index(self.model.len()).is_some() {
            return Err("get_index(len) is Some".to_owned());
        }
        if m.first().map(|(k, v)| (k.id, v.val)) != self.model.first().copied() || m.last().map(|(k, v)| (k.id, v.val)) != self.model.last().copied() {
            return Err("first/last disagree".to_owned());
        }
        for id in 0..self.universe {
            let kk = key(self.mode, id);
            let hk = hashed(self.explicit, kk.clone());
            let want = self.model.iter().position(|(k, _)| *k == id);
            let (got_idx, got_full, got_val, got_contains) = if self.explicit {
                (
                    m.get_index_of_hashed(hk.as_ref()),
                    m.get_full_hashed(hk.as_ref()).map(|(i, k, v)| (i, k.id, v.val)),
                    m.get_hashed(hk.as_ref()).map(|v| v.val),
                    m.contains_key_hashed(hk.as_ref()),
                )
            } else {
                (m.get_index_of(&kk), m.get_full(&kk).map(|(i, k, v)| (i, k.id, v.val)), m.get(&kk).map(|v| v.val), m.contains_key(&kk))
            };
            let want_full = want.map(|p| (p, id, self.model[p].1));
            if got_idx != want || got_full != want_full || got_val != want_full.map(|x| x.2) || got_contains != want.is_some() {
                return Err(format!(
                    "lookup of key {id} (hash {:#x}): index_of={got_idx:?} full={got_full:?} get={got_val:?} contains={got_contains}, model position {want:?}",
                    kk.h
                ));
            }
        }
        if deep {
            let keys: Vec<u32> = m.keys().map(|k| k.id).collect();
            let vals: Vec<i64> = m.values().map(|v| v.val).collect();
            let rev: Vec<(u32, i64)> = m.iter().rev().map(|(k, v)| (k.id, v.val)).collect();
            let hashedv: Vec<(u32, u32)> = m.iter_hashed().map(|(k, _)| (k.key().id, k.hash().get())).collect();
            let mut mrev = self.model.clone();
            mrev.reverse();
            if keys != self.model.iter().map(|x| x.0).collect::<Vec<_>>() || vals != self.model.iter().map(|x| x.1).collect::<Vec<_>>() || rev != mrev {
                return Err("keys()/values()/rev() disagree with model".to_owned());
            }
            for ((id, h), (mk, _)) in hashedv.iter().zip(self.model.iter()) {
                let expect = hashed(self.explicit, key(self.mode, *mk)).hash().get();
                if id != mk || *h != expect {
                    return Err(format!("iter_hashed gives ({id},{h:#x}), expected ({mk},{expect:#x})"));
                }
            }
            if m.iter().len() != self.model.len() {
                return Err("ExactSizeIterator len wrong".to_owned());
            }
            // A map rebuilt from the model is eq_ordered and hash_ordered-equal.
            let mut rebuilt: SmallMap<K, V> = SmallMap::new();
            for (k, v) in &self.model {
                rebuilt.insert_hashed(hashed(self.explicit, key(self.mode, *k)), V::new(*v));
            }
            if !m.eq_ordered(&rebuilt) || *m != rebuilt {
                return Err("eq_ordered / == with a map rebuilt from the model is false".to_owned());
            }
            let hh = |x: &SmallMap<K, V>| {
                let mut s = std::collections::hash_map::DefaultHasher::new();
                x.hash_ordered(&mut s);
                s.finish()
            };
            if hh(m) != hh(&rebuilt) {
                return Err("hash_ordered differs from a map rebuilt from the model".to_owned());
            }
            // `==` of SmallMap ignores the order, `eq_ordered` does not: maps holding the same
            // entries inserted in another order (reversed, rotated, two neighbours swapped - with
            // adversarial hashes neighbours often share their full hash).
            let n = self.model.len();
            if n >= 2 {
                let mut perms: Vec<Vec<(u32, i64)>> = Vec::new();
                perms.push(mrev.clone());
                let mut rot = self.model.clone();
                rot.rotate_left(1);
                perms.push(rot);
                for at in [0, n / 2, n - 2] {
                    let at = at.min(n - 2);
                    let mut sw = self.model.clone();
                    sw.swap(at, at + 1);
                    perms.push(sw);
                }
                for p in &perms {
                    let mut other: SmallMap<K, V> = SmallMap::new();
                    for (k, v) in p {
                        other.insert_hashed(hashed(self.explicit, key(self.mode, *k)), V::new(*v));
                    }
                    if *m != other || other != *m {
                        return Err(format!("== is false for a map with the same entries in another order {:?}", p.iter().map(|x| x.0).collect::<Vec<_>>()));
                    }
                    if *p != self.model && m.eq_ordered(&other) {
                        return Err("eq_ordered is true for a different order".to_owned());
                    }
                    // One value changed / one entry missing: not equal.
                    if let Some(v) = other.values_mut().last() {
                        v.val += 1;
                    }
                    if *m == other {
                        return Err("== is true although one value differs".to_owned());
                    }
                    other.pop();
                    if *m == other || other == *m {
                        return Err("== is true although one entry is missing".to_owned());
                    }
                }
            }
            let into: Vec<(u32, i64)> = m.clone().into_iter().map(|(k, v)| (k.id, v.val)).collect();
            if into != self.model {
                return Err("into_iter of a clone disagrees".to_owned());
            }
            let ik: Vec<u32> = m.clone().into_keys().map(|k| k.id).collect();
            let iv: Vec<i64> = m.clone().into_values().map(|v| v.val).collect();
            if ik != keys || iv != vals {
                return Err("into_keys/into_values disagree".to_owned());
            }
        }
        Ok(())
    }

    /// After an injected panic the container must hold what a plain `Vec<(K, V)>` would hold after the
    /// same panicking operation (std semantics): operations whose callbacks run before any mutation
    /// leave it unchanged; `retain` keeps the decisions taken before the panic and everything from
    /// the panicking element on; `sort_keys` leaves a permutation; `extend` has applied a prefix.
    /// The model is then re-synchronised for the permutation / prefix cases.
    fn check_after_panic(&mut self, op: &Op, fault: Option<(Cb, u64)>) -> Res {
        let actual: Vec<(u32, i64)> = self.map.iter().map(|(k, v)| (k.id, v.val)).collect();
        let mut seen = BTreeSet::new();
        for (k, _) in &actual {
            if !seen.insert(*k) {
                return Err(format!("duplicate key {k} after a panic inside {op:?}"));
            }
        }
        match op {
            Op::Retain(m, r) => {
                // The n-th closure call panicked: elements 0..n-1 were decided (and their value bumped).
                let n = fault.map(|f| f.1 as usize).unwrap_or(1);
                let (m, r) = ((*m).max(1), *r);
                let mut want: Vec<(u32, i64)> = Vec::new();
                for (i, (k, v)) in self.model.iter().enumerate() {
                    if i + 1 < n {
                        if k % m != r % m {
                            want.push((*k, v + 1));
                        }
                    } else {
                        want.push((*k, *v));
                    }
                }
                if actual != want {
                    return Err(format!("after a panic in the {n}-th call of the retain predicate the map holds {actual:?}, a plain list would hold {want:?}"));
                }
                self.model = want;
            }
            Op::SortKeys => {
                let mut a = actual.clone();
                let mut b = self.model.clone();
                a.sort();
                b.sort();
                if a != b {
                    return Err(format!("after a panic inside sort_keys the map is not a permutation of its old content: {actual:?} vs {:?}", self.model));
                }
                self.model = actual;
            }
            Op::Extend(a, n) => {
                // Some prefix of the items has been applied.
                let mut ok = false;
                for j in 0..=*n {
                    let mut m2 = self.model.clone();
                    for i in 0..j {
                        let k = (a + i) % self.universe;
                        let v = (a + i) as i64 + 500;
                        match m2.iter().position(|x| x.0 == k) {
                            Some(p) => m2[p].1 = v,
                            None => m2.push((k, v)),
                        }
                    }
                    if m2 == actual {
                        ok = true;
                        break;
                    }
                }
                if !ok {
                    return Err(format!("after a panic inside extend the map {actual:?} is not the old content plus a prefix of the new items (old {:?})", self.model));
                }
                self.model = actual;
            }
            _ => {
                // Callbacks (Hash / Eq / closure) run before any mutation: nothing may have changed.
                if actual != self.model {
                    return Err(format!("after a panic inside {op:?} (before any mutation) the map changed: {actual:?} vs {:?}", self.model));
                }
            }
        }
        // Internal consistency: strict check against the (re-synchronised) model.
        self.check(true).map_err(|e| format!("inconsistent after a panic inside {op:?}: {e}"))
    }

    fn step(&mut self, op: &Op, fault: Option<(Cb, u64)>) -> Res {
        arm(fault);
        let r = catch_unwind(AssertUnwindSafe(|| self.apply_real(op)));
        let fired = FIRED.with(|f| f.get());
        arm(None);
        match r {
            Ok(got) => {
                if fired {
                    return Err(format!("injected panic was swallowed inside {op:?}"));
                }
                let want = self.apply_model(op);
                if got != want {
                    return Err(format!("{op:?} returned {got}, model {want}"));
                }
                let deep = matches!(op, Op::Iters | Op::CloneSwap | Op::SortKeys | Op::Reverse | Op::Retain(..));
                self.check(deep).map_err(|e| format!("after {op:?}: {e}"))?;
            }
            Err(_) => {
                let msg = take_last_panic().unwrap_or_default();
                if !fired || !msg.contains("injected panic") {
                    return Err(format!("panic inside {op:?}: {msg}"));
                }
                self.bump("fault.panic_in_callback");
                match fault {
                    Some((Cb::Hash, _)) => self.bump("fault.panic_in_hash"),
                    Some((Cb::Eq, _)) => self.bump("fault.panic_in_eq"),
                    Some((Cb::Ord, _)) => self.bump("fault.panic_in_ord"),
                    Some((Cb::Closure, _)) => self.bump("fault.panic_in_closure"),
                    None => {}
                }
                self.check_after_panic(op, fault)?;
            }
        }
        let above = self.model.len() > 16;
        if above != self.above {
            self.above = above;
            self.crossings += 1;
        }
        Ok(())
    }
}

fn gen_op(rng: &mut Rng, universe: u32, len: usize, bias_grow: bool) -> Op {
    let k = rng.below(universe as u64) as u32;
    let v = rng.range(0, 99);
    let r = rng.below(100);
    let grow = if bias_grow { 55 } else { 25 };
    if r < grow {
        return match rng.below(5) {
            0 => Op::InsertUnique(k, v),
            1 => Op::OrInsertWith(k, v),
            2 => Op::AndModify(k, v),
            3 => Op::Extend(k, 1 + rng.below(6) as u32),
            _ => Op::Insert(k, v),
        };
    }
    match rng.below(16) {
        0 | 1 => Op::RemoveKey(k),
        2 => Op::RemoveEntry(k),
        3 => Op::RemoveIndex(rng.below(len as u64 + 2) as u32),
        4 => Op::RemoveIndex(1_000_000 + rng.below(3) as u32),
        5 | 6 => Op::Pop,
        7 => Op::Retain(2 + rng.below(4) as u32, rng.below(4) as u32),
        8 => Op::SortKeys,
        9 => Op::Reverse,
        10 => {
            if rng.chance(1, 4) {
                Op::Clear
            } else {
                Op::Reserve(rng.below(40) as u32)
            }
        }
        11 => Op::DropIndex,
        12 => Op::CloneSwap,
        13 => Op::GetMut(k, v),
        14 => Op::ValuesMut,
        _ => Op::Iters,
    }
}

fn run_map_history(mode: u64, explicit: bool, universe: u32, ops: &[(Op, Option<(Cb, u64)>)], o: &mut Outcome) -> Res {
    let mut sim = MapSim::new(mode, explicit, universe);
    let mut res = Ok(());
    for (i, (op, fault)) in ops.iter().enumerate() {
        if let Err(e) = sim.step(op, *fault) {
            res = Err(format!("step {i}: {e}"));
            break;
        }
    }
    for (k, v) in &sim.stats {
        o.bump(k, *v);
    }
    if sim.crossings >= 2 {
        o.bump("probe.histories_crossing_index_threshold_twice_or_more", 1);
    }
    o.sim_time += ops.len() as u64;
    drop(sim);
    let dd = DOUBLE_DROP.with(|d| d.replace(0));
    let leaked = LIVE.with(|l| std::mem::take(&mut *l.borrow_mut()).len());
    if res.is_ok() && dd > 0 {
        return Err(format!("{dd} value(s) dropped twice"));
    }
    let any_fault = ops.iter().any(|(_, f)| f.is_some());
    if res.is_ok() && leaked > 0 && !any_fault {
        return Err(format!("{leaked} value(s) leaked in a fault-free history"));
    }
    res
}

// ---------------------------------------------------------------------------------------------
// Lighter interpreters for the other containers (fault-free, plus closure panics for Vec2)

fn run_other(kind: &str, mode: u64, seed: u64, n: usize, o: &mut Outcome) -> Res {
    let mut rng = Rng::new(seed);
    let universe = 24u32;
    arm(None);
    match kind {
        "small_set" => {
            let mut s: SmallSet<K> = SmallSet::new();
            let mut model: Vec<u32> = Vec::new();
            for step in 0..n {
                let k = rng.below(universe as u64) as u32;
                match rng.below(12) {
                    0..=3 => {
                        let r = s.insert(key(mode, k));
                        let w = !model.contains(&k);
                        if w {
                            model.push(k);
                        }
                        if r != w {
                            return Err(format!("step {step}: SmallSet::insert({k}) = {r}, model {w}"));
                        }
                    }
                    4 => {
                        let r = s.shift_remove(&key(mode, k));
                        let w = model.iter().position(|x| *x == k).map(|p| model.remove(p)).is_some();
                        if r != w {
                            return Err(format!("step {step}: SmallSet::shift_remove({k}) = {r}, model {w}"));
                        }
                    }
                    5 => {
                        let i = rng.below(model.len() as u64 + 2) as usize;
                        let r = s.shift_remove_index(i).map(|k| k.id);
                        let w = if i < model.len() { Some(model.remove(i)) } else { None };
                        if r != w {
                            return Err(format!("step {step}: SmallSet::shift_remove_index({i}) = {r:?}, model {w:?}"));
                        }
                    }
                    6 => {
                        if s.pop().map(|k| k.id) != model.pop() {
                            return Err(format!("step {step}: SmallSet::pop disagrees"));
                        }
                    }
                    7 => {
                        let r = s.take(&key(mode, k)).map(|k| k.id);
                        let w = model.iter().position(|x| *x == k).map(|p| model.remove(p));
                        if r != w {
                            return Err(format!("step {step}: SmallSet::take({k}) = {r:?}, model {w:?}"));
                        }
                    }
                    8 => {
                        let r = s.get_or_insert(key(mode, k)).id;
                        if !model.contains(&k) {
                            model.push(k);
                        }
                        if r != k {
                            return Err(format!("step {step}: get_or_insert"));
                        }
                    }
                    9 => {
                        let m = 2 + rng.below(3) as u32;
                        s.retain(|x| x.id % m != 0);
                        model.retain(|x| x % m != 0);
                    }
                    10 => {
                        if rng.bool() {
                            s.sort();
                            model.sort();
                        } else {
                            s.reverse();
                            model.reverse();
                        }
                    }
                    _ => {
                        if rng.chance(1, 6) {
                            s.clear();
                            model.clear();
                        }
                    }
                }
                let actual: Vec<u32> = s.iter().map(|k| k.id).collect();
                if actual != model || s.len() != model.len() {
                    return Err(format!("step {step}: SmallSet order {actual:?} vs {model:?}"));
                }
                for id in 0..universe {
                    let want = model.iter().position(|x| *x == id);
                    if s.get_index_of(&key(mode, id)) != want || s.contains(&key(mode, id)) != want.is_some() || s.get(&key(mode, id)).map(|k| k.id) != want.map(|_| id) {
                        return Err(format!("step {step}: SmallSet lookup of {id} disagrees with model position {want:?}"));
                    }
                }
                for (i, w) in model.iter().enumerate() {
                    if s.get_index(i).map(|k| k.id) != Some(*w) {
                        return Err(format!("step {step}: SmallSet::get_index({i})"));
                    }
                }
                if s.first().map(|k| k.id) != model.first().copied() || s.last().map(|k| k.id) != model.last().copied() {
                    return Err(format!("step {step}: SmallSet first/last"));
                }
            }
            o.sim_time += n as u64;
        }
        "ordered" => {
            let mut m: OrderedMap<K, i64> = OrderedMap::new();
            let mut st: OrderedSet<K> = OrderedSet::new();
            let mut model: Vec<(u32, i64)> = Vec::new();
            let mut smodel: Vec<u32> = Vec::new();
            for step in 0..n {
                let k = rng.below(universe as u64) as u32;
                let v = rng.range(0, 99);
                match rng.below(10) {
                    0..=3 => {
                        let r = m.insert(key(mode, k), v);
                        let w = match model.iter().position(|x| x.0 == k) {
                            Some(p) => Some(std::mem::replace(&mut model[p].1, v)),
                            None => {
                                model.push((k, v));
                                None
                            }
                        };
                        if r != w {
                            return Err(format!("step {step}: OrderedMap::insert({k}) = {r:?}, model {w:?}"));
                        }
                        let r2 = st.insert(key(mode, k));
                        let w2 = !smodel.contains(&k);
                        if w2 {
                            smodel.push(k);
                        }
                        if r2 != w2 {
                            return Err(format!("step {step}: OrderedSet::insert"));
                        }
                    }
                    4 | 5 => {
                        let r = m.remove(&key(mode, k));
                        let w = model.iter().position(|x| x.0 == k).map(|p| model.remove(p).1);
                        if r != w {
                            return Err(format!("step {step}: OrderedMap::remove({k}) = {r:?}, model {w:?}"));
                        }
                        let r2 = st.take(&key(mode, k)).map(|k| k.id);
                        let w2 = smodel.iter().position(|x| *x == k).map(|p| smodel.remove(p));
                        if r2 != w2 {
                            return Err(format!("step {step}: OrderedSet::take"));
                        }
                    }
                    6 => {
                        m.sort_keys();
                        model.sort_by_key(|x| x.0);
                        st.sort();
                        smodel.sort();
                    }
                    7 => {
                        st.reverse();
                        smodel.reverse();
                        let r = st.try_insert(key(mode, k)).is_ok();
                        let w = !smodel.contains(&k);
                        if w {
                            smodel.push(k);
                        }
                        if r != w {
                            return Err(format!("step {step}: OrderedSet::try_insert"));
                        }
                    }
                    8 => {
                        *m.entry(key(mode, k)).or_insert(v) += 1;
                        match model.iter().position(|x| x.0 == k) {
                            Some(p) => model[p].1 += 1,
                            None => model.push((k, v + 1)),
                        }
                    }
                    _ => {
                        if rng.chance(1, 8) {
                            m.clear();
                            model.clear();
                            st.clear();
                            smodel.clear();
                        }
                    }
                }
                let actual: Vec<(u32, i64)> = m.iter().map(|(k, v)| (k.id, *v)).collect();
                if actual != model || m.len() != model.len() {
                    return Err(format!("step {step}: OrderedMap order {actual:?} vs {model:?}"));
                }
                let sa: Vec<u32> = st.iter().map(|k| k.id).collect();
                if sa != smodel {
                    return Err(format!("step {step}: OrderedSet order {sa:?} vs {smodel:?}"));
                }
                for id in 0..universe {
                    let want = model.iter().position(|x| x.0 == id);
                    if m.get_index_of(&key(mode, id)) != want || m.get(&key(mode, id)).copied() != want.map(|p| model[p].1) || m.contains_key(&key(mode, id)) != want.is_some() {
                        return Err(format!("step {step}: OrderedMap lookup of {id}"));
                    }
                    let w2 = smodel.iter().position(|x| *x == id);
                    if st.get_index_of(&key(mode, id)) != w2 || st.contains(&key(mode, id)) != w2.is_some() {
                        return Err(format!("step {step}: OrderedSet lookup of {id}"));
                    }
                }
                for (i, w) in model.iter().enumerate() {
                    if m.get_index(i).map(|(k, v)| (k.id, *v)) != Some(*w) {
                        return Err(format!("step {step}: OrderedMap::get_index({i})"));
                    }
                }
            }
            o.sim_time += n as u64;
        }
        "sorted" => {
            for round in 0..(n / 8).max(1) {
                let cnt = rng.usize(40);
                let mut pairs: Vec<(u32, i64)> = Vec::new();
                // The input as given, repeated keys included: like a list of pairs, a later pair
                // with the same key replaces the value.
                let mut raw: Vec<(u32, i64)> = Vec::new();
                for _ in 0..cnt {
                    let k = rng.below(universe as u64 * 2) as u32;
                    let v = rng.range(0, 99);
                    raw.push((k, v));
                    match pairs.iter().position(|x| x.0 == k) {
                        Some(p) => pairs[p].1 = v,
                        None => pairs.push((k, v)),
                    }
                }
                if raw.len() != pairs.len() {
                    o.bump("probe.sorted_built_from_input_with_repeated_keys", 1);
                }
                let sm: SortedMap<K, i64> = raw.iter().map(|(k, v)| (key(mode, *k), *v)).collect();
                let ss: SortedSet<K> = raw.iter().map(|(k, _)| key(mode, *k)).collect();
                // The same through the other constructors.
                let via_small: SortedMap<K, i64> = SortedMap::from(raw.iter().map(|(k, v)| (key(mode, *k), *v)).collect::<SmallMap<K, i64>>());
                let via_ordered: SortedMap<K, i64> = SortedMap::from(raw.iter().map(|(k, v)| (key(mode, *k), *v)).collect::<OrderedMap<K, i64>>());
                if sm != via_small || sm != via_ordered || sm.iter().map(|(k, v)| (k.id, *v)).collect::<Vec<_>>() != via_small.iter().map(|(k, v)| (k.id, *v)).collect::<Vec<_>>() {
                    return Err(format!("round {round}: SortedMap built by collect() differs from the one built from a SmallMap / OrderedMap of the same pairs"));
                }
                let sv: SortedVec<u32> = pairs.iter().map(|(k, _)| *k).collect();
                let mut model = pairs.clone();
                model.sort_by_key(|x| x.0);
                let a: Vec<(u32, i64)> = sm.iter().map(|(k, v)| (k.id, *v)).collect();
                if a != model || sm.len() != model.len() {
                    return Err(format!("round {round}: SortedMap iteration {a:?} vs {model:?}"));
                }
                let b: Vec<u32> = ss.iter().map(|k| k.id).collect();
                let c: Vec<u32> = sv.iter().copied().collect();
                let mk: Vec<u32> = model.iter().map(|x| x.0).collect();
                if b != mk || c != mk {
                    return Err(format!("round {round}: SortedSet/SortedVec iteration"));
                }
                for id in 0..universe * 2 {
                    let want = model.iter().find(|x| x.0 == id).map(|x| x.1);
                    if sm.get(&key(mode, id)).copied() != want || sm.contains_key(&key(mode, id)) != want.is_some() || ss.contains(&key(mode, id)) != want.is_some() {
                        return Err(format!("round {round}: SortedMap/Set lookup of {id}"));
                    }
                }
                for (i, w) in mk.iter().enumerate() {
                    if ss.get_index(i).map(|k| k.id) != Some(*w) {
                        return Err(format!("round {round}: SortedSet::get_index({i})"));
                    }
                }
                o.sim_time += cnt as u64;
            }
        }
        "unordered" => {
            let mut m: UnorderedMap<K, i64> = UnorderedMap::new();
            let mut s: UnorderedSet<K> = UnorderedSet::new();
            let mut model: BTreeMap<u32, i64> = BTreeMap::new();
            for step in 0..n {
                let k = rng.below(universe as u64) as u32;
                let v = rng.range(0, 99);
                match rng.below(10) {
                    0..=3 => {
                        let r = m.insert(key(mode, k), v);
                        let w = model.insert(k, v);
                        if r != w {
                            return Err(format!("step {step}: UnorderedMap::insert({k}) = {r:?}, model {w:?}"));
                        }
                        let r2 = s.insert(key(mode, k));
                        if r2 != w.is_none() {
                            return Err(format!("step {step}: UnorderedSet::insert({k}) = {r2}"));
                        }
                    }
                    4 | 5 => {
                        let r = m.remove(&key(mode, k));
                        let w = model.remove(&k);
                        if r != w {
                            return Err(format!("step {step}: UnorderedMap::remove({k}) = {r:?}, model {w:?}"));
                        }
                        // UnorderedSet removal goes through the raw entry API.
                        if let starlark_map::unordered_set::RawEntryMut::Occupied(e) = s.raw_entry_mut().from_entry(&key(mode, k)) {
                            e.remove();
                        }
                    }
                    6 => {
                        let md = 2 + rng.below(3) as u32;
                        m.retain(|k, _| k.id % md != 0);
                        model.retain(|k, _| k % md != 0);
                        let gone: Vec<u32> = (0..universe).filter(|x| x % md == 0).collect();
                        for g in gone {
                            if let starlark_map::unordered_set::RawEntryMut::Occupied(e) = s.raw_entry_mut().from_entry(&key(mode, g)) {
                                e.remove();
                            }
                        }
                    }
                    7 => {
                        if let Some(x) = m.get_mut(&key(mode, k)) {
                            *x += 5;
                        }
                        if let Some(x) = model.get_mut(&k) {
                            *x += 5;
                        }
                    }
                    _ => {
                        if rng.chance(1, 8) {
                            m.clear();
                            s.clear();
                            model.clear();
                        }
                    }
                }
                if m.len() != model.len() || s.len() != model.len() {
                    return Err(format!("step {step}: Unordered len {} / {} vs {}", m.len(), s.len(), model.len()));
                }
                let sorted: Vec<(u32, i64)> = m.entries_sorted().into_iter().map(|(k, v)| (k.id, *v)).collect();
                let want: Vec<(u32, i64)> = model.iter().map(|(k, v)| (*k, *v)).collect();
                if sorted != want {
                    return Err(format!("step {step}: UnorderedMap::entries_sorted {sorted:?} vs {want:?}"));
                }
                let ssorted: Vec<u32> = s.entries_sorted().into_iter().map(|k| k.id).collect();
                if ssorted != want.iter().map(|x| x.0).collect::<Vec<_>>() {
                    return Err(format!("step {step}: UnorderedSet::entries_sorted"));
                }
                for id in 0..universe {
                    if m.get(&key(mode, id)).copied() != model.get(&id).copied() || m.contains_key(&key(mode, id)) != model.contains_key(&id) || s.contains(&key(mode, id)) != model.contains_key(&id) {
                        return Err(format!("step {step}: Unordered lookup of {id}"));
                    }
                }
            }
            o.sim_time += n as u64;
        }
        "vec2" => {
            let mut v2: Vec2<V, u32> = Vec2::new();
            let mut model: Vec<(i64, u32)> = Vec::new();
            for step in 0..n {
                let a = rng.range(0, 99);
                let b = rng.below(1000) as u32;
                let fault = if rng.chance(1, 12) { Some(1 + rng.below(6)) } else { None };
                match rng.below(15) {
                    0..=3 => {
                        v2.push(V::new(a), b);
                        model.push((a, b));
                    }
                    4 => {
                        if !model.is_empty() {
                            let i = rng.usize(model.len());
                            let (x, y) = v2.remove(i);
                            let w = model.remove(i);
                            if (x.val, y) != w {
                                return Err(format!("step {step}: Vec2::remove({i})"));
                            }
                        }
                    }
                    5 => {
                        if v2.pop().map(|(x, y)| (x.val, y)) != model.pop() {
                            return Err(format!("step {step}: Vec2::pop"));
                        }
                    }
                    6 => {
                        let l = rng.usize(model.len() + 3);
                        v2.truncate(l);
                        model.truncate(l);
                    }
                    7 => {
                        let md = 2 + rng.below(3) as u32;
                        arm(fault.map(|n| (Cb::Closure, n)));
                        let before = model.clone();
                        let r = catch_unwind(AssertUnwindSafe(|| {
                            v2.retain(|_x, y| {
                                cb(Cb::Closure);
                                *y % md != 0
                            })
                        }));
                        arm(None);
                        match r {
                            Ok(()) => model.retain(|(_, y)| y % md != 0),
                            Err(_) => {
                                o.bump("fault.panic_in_closure", 1);
                                o.bump("fault.panic_in_callback", 1);
                                // Exactly what a plain Vec would hold: decisions before the panicking
                                // call applied, the panicking element and everything after it kept.
                                let actual: Vec<(i64, u32)> = v2.iter().map(|(x, y)| (x.val, *y)).collect();
                                let n = fault.unwrap_or(1) as usize;
                                let want: Vec<(i64, u32)> = before.iter().enumerate().filter(|(i, (_, y))| *i + 1 >= n || y % md != 0).map(|(_, e)| *e).collect();
                                if actual != want {
                                    return Err(format!("step {step}: Vec2 after a panic in the {n}-th call of the retain predicate holds {actual:?}, a plain Vec would hold {want:?}"));
                                }
                                model = actual;
                            }
                        }
                    }
                    8 => {
                        arm(fault.map(|n| (Cb::Closure, n)));
                        let before = model.clone();
                        let r = catch_unwind(AssertUnwindSafe(|| {
                            v2.sort_by(|(x, _), (y, _)| {
                                cb(Cb::Closure);
                                x.val.cmp(&y.val)
                            })
                        }));
                        arm(None);
                        match r {
                            Ok(()) => model.sort_by_key(|x| x.0),
                            Err(_) => {
                                o.bump("fault.panic_in_closure", 1);
                                o.bump("fault.panic_in_callback", 1);
                                let mut actual: Vec<(i64, u32)> = v2.iter().map(|(x, y)| (x.val, *y)).collect();
                                let synced = actual.clone();
                                let mut b2 = before.clone();
                                actual.sort();
                                b2.sort();
                                if actual != b2 {
                                    return Err(format!("step {step}: Vec2 after a panic in sort_by is not a permutation of the old content"));
                                }
                                model = synced;
                            }
                        }
                    }
                    9 => {
                        v2.reserve(rng.usize(50));
                        if rng.bool() {
                            v2.shrink_to_fit();
                        }
                    }
                    10 => {
                        if let Some((x, y)) = v2.get_mut(rng.usize(model.len() + 1)) {
                            x.val += 1;
                            *y += 1;
                        }
                        // mirror
                        let _ = ();
                        let actual: Vec<(i64, u32)> = v2.iter().map(|(x, y)| (x.val, *y)).collect();
                        if actual.len() != model.len() {
                            return Err(format!("step {step}: Vec2 len after get_mut"));
                        }
                        model = actual;
                    }
                    11 => {
                        let c = v2.clone();
                        let actual: Vec<(i64, u32)> = c.iter().map(|(x, y)| (x.val, *y)).collect();
                        if actual != model {
                            return Err(format!("step {step}: Vec2 clone differs"));
                        }
                        v2 = c;
                    }
                    12 => {
                        // Owning iteration over a copy whose two components both own something,
                        // consumed from both ends and abandoned half-way: every value is yielded or
                        // dropped exactly once.
                        let mut w: Vec2<V, V> = Vec2::new();
                        for (a, b) in &model {
                            w.push(V::new(*a), V::new(*b as i64));
                        }
                        let live_before = LIVE.with(|l| l.borrow().len());
                        let total = model.len();
                        let front = rng.usize(total + 1);
                        let back = rng.usize(total - front + 1);
                        let mut it = w.into_iter();
                        let mut got_front: Vec<(i64, i64)> = Vec::new();
                        let mut got_back: Vec<(i64, i64)> = Vec::new();
                        for _ in 0..front {
                            if let Some((x, y)) = it.next() {
                                got_front.push((x.val, y.val));
                            }
                        }
                        for _ in 0..back {
                            if let Some((x, y)) = it.next_back() {
                                got_back.push((x.val, y.val));
                            }
                        }
                        if it.len() != total - front - back {
                            return Err(format!("step {step}: Vec2 IntoIter::len after {front}+{back} of {total}"));
                        }
                        drop(it);
                        let want_front: Vec<(i64, i64)> = model[..front].iter().map(|(a, b)| (*a, *b as i64)).collect();
                        let want_back: Vec<(i64, i64)> = model[total - back..].iter().rev().map(|(a, b)| (*a, *b as i64)).collect();
                        if got_front != want_front || got_back != want_back {
                            return Err(format!("step {step}: Vec2 into_iter yielded {got_front:?} / {got_back:?}"));
                        }
                        let live_after = LIVE.with(|l| l.borrow().len());
                        let dd = DOUBLE_DROP.with(|d| d.get());
                        if dd > 0 {
                            return Err(format!("step {step}: Vec2 into_iter abandoned after {front} front / {back} back of {total}: {dd} value(s) dropped twice"));
                        }
                        if live_after + 2 * total != live_before {
                            return Err(format!("step {step}: Vec2 into_iter abandoned after {front} front / {back} back of {total}: {} value(s) never dropped", live_after + 2 * total - live_before));
                        }
                        o.bump("probe.vec2_into_iter_abandoned", 1);
                    }
                    13 => {
                        // A second component without size (the unit type): still a list of pairs.
                        let mut z: Vec2<V, ()> = Vec2::new();
                        for (a, _) in &model {
                            z.push(V::new(*a), ());
                        }
                        let borrowed: Vec<i64> = z.iter().map(|(x, _)| x.val).collect();
                        let want: Vec<i64> = model.iter().map(|x| x.0).collect();
                        if borrowed != want || z.len() != want.len() {
                            return Err(format!("step {step}: Vec2<_, ()> iteration {borrowed:?} vs {want:?}"));
                        }
                        let r = catch_unwind(AssertUnwindSafe(|| z.into_iter().map(|(x, _)| x.val).collect::<Vec<i64>>()));
                        match r {
                            Ok(owned) if owned == want => o.bump("probe.vec2_zero_sized_second_component", 1),
                            Ok(owned) => {
                                if !want.is_empty() {
                                    o.note_known("vec2/zero-sized-second-component", format!("Vec2<_, ()>::into_iter of {} entries yields {:?}", want.len(), owned));
                                }
                            }
                            Err(_) => {
                                let msg = take_last_panic().unwrap_or_default();
                                o.note_known("vec2/zero-sized-second-component", format!("Vec2<_, ()>::into_iter of {} entries panics: {}", want.len(), msg.lines().next().unwrap_or("")));
                            }
                        }
                        // Whatever happened, the tracked values of `z` are not part of the rest of the history.
                        DOUBLE_DROP.with(|d| d.set(0));
                    }
                    _ => match rng.below(8) {
                        0 => {
                            v2.clear();
                            model.clear();
                        }
                        1..=4 => destructor_faults(&model, &mut rng, o, step)?,
                        5 | 6 => clone_faults(&model, &mut rng, o, step)?,
                        _ => {}
                    },
                }
                let actual: Vec<(i64, u32)> = v2.iter().map(|(x, y)| (x.val, *y)).collect();
                if actual != model || v2.len() != model.len() || v2.is_empty() != model.is_empty() {
                    return Err(format!("step {step}: Vec2 content {actual:?} vs {model:?}"));
                }
                let rev: Vec<(i64, u32)> = v2.iter().rev().map(|(x, y)| (x.val, *y)).collect();
                let mut mr = model.clone();
                mr.reverse();
                if rev != mr {
                    return Err(format!("step {step}: Vec2 reverse iteration"));
                }
                for (i, w) in model.iter().enumerate() {
                    if v2.get(i).map(|(x, y)| (x.val, *y)) != Some(*w) {
                        return Err(format!("step {step}: Vec2::get({i})"));
                    }
                }
                if v2.get(model.len()).is_some() || v2.first().map(|(x, y)| (x.val, *y)) != model.first().copied() || v2.last().map(|(x, y)| (x.val, *y)) != model.last().copied() {
                    return Err(format!("step {step}: Vec2 get(len)/first/last"));
                }
            }
            drop(v2);
            let dd = DOUBLE_DROP.with(|d| d.replace(0));
            LIVE.with(|l| l.borrow_mut().clear());
            if dd > 0 {
                return Err(format!("Vec2: {dd} value(s) dropped twice"));
            }
            o.sim_time += n as u64;
        }
        _ => {}
    }
    Ok(())
}

// ---------------------------------------------------------------------------------------------
// Exhaustive short histories around the index threshold

fn exhaustive_alphabet() -> Vec<Op> {
    let mut v = Vec::new();
    for k in [3u32, 40, 41] {
        // 3 is present in the base map, 40 and 41 are not.
        v.push(Op::Insert(k, 7));
        v.push(Op::RemoveKey(k));
        v.push(Op::OrInsertWith(k, 8));
    }
    v.push(Op::RemoveIndex(0));
    v.push(Op::RemoveIndex(9));
    v.push(Op::RemoveIndex(1_000_000));
    v.push(Op::RemoveIndex(1_000_001));
    v.push(Op::Pop);
    v.push(Op::Retain(5, 1));
    v.push(Op::SortKeys);
    v.push(Op::Reverse);
    v.push(Op::DropIndex);
    v.push(Op::Clear);
    v.push(Op::Extend(38, 3));
    v
}

fn run_exhaustive(size: u32, prefix: &[usize], depth: usize, mode: u64, explicit: bool, o: &mut Outcome) -> Res {
    let alpha = exhaustive_alphabet();
    let universe = 44u32;
    let mut counter = 0u64;
    // Iterative enumeration of all suffixes of length 0..=depth after the fixed prefix.
    let mut idx = vec![0usize; depth];
    let mut len = 0usize;
    loop {
        // Execute prefix + idx[..len].
        let mut sim = MapSim::new(mode, explicit, universe);
        for i in 0..size {
            // base map built in a scrambled order
            let id = (i * 7) % size;
            if let Err(e) = sim.step(&Op::Insert(id, id as i64), None) {
                return Err(format!("base build: {e}"));
            }
        }
        let mut hist: Vec<&Op> = prefix.iter().map(|p| &alpha[*p % alpha.len()]).collect();
        hist.extend(idx[..len].iter().map(|p| &alpha[*p]));
        for (i, op) in hist.iter().enumerate() {
            if let Err(e) = sim.step(op, None) {
                let h: Vec<Json> = hist.iter().map(|o| o.to_json()).collect();
                return Err(format!("exhaustive size {size} history {} step {i}: {e}", Json::Array(h)));
            }
        }
        counter += 1;
        drop(sim);
        LIVE.with(|l| l.borrow_mut().clear());
        // Next history in length-lexicographic order.
        if len < depth {
            idx[len] = 0;
            len += 1;
        } else {
            loop {
                if len == 0 {
                    o.bump("exhaustive_histories", counter);
                    o.sim_time += counter * (prefix.len() + depth) as u64;
                    return Ok(());
                }
                idx[len - 1] += 1;
                if idx[len - 1] < alpha.len() {
                    break;
                }
                len -= 1;
            }
        }
    }
}

impl World for C11 {
    fn id(&self) -> &'static str {
        "C11"
    }

    fn describe(&self) -> Describe {
        Describe {
            level: "exploration",
            rule: "three kinds of run: (a) exhaustive = for base SmallMaps of 15, 16, 17 and 18 entries (around the 16-entry index threshold), hash modes {all-equal, sequential} and every 2-operation prefix, ALL operation sequences of length <= 2 (quick) or <= 3 (thorough) over an 20-letter alphabet (insert/remove/or_insert_with on present and absent keys, remove by index, pop, retain, sort, reverse, drop-index, clear, extend) - complete enumeration of histories up to length 4 resp. 5; (b) random SmallMap histories of up to 220 operations over <= 48 keys with adversarial hashes, through the plain and the pre-hashed API, with a panic injected into Hash/Eq/Ord/closure callbacks at the n-th call inside ~1 in 9 operations; (c) histories over SmallSet, OrderedMap/Set, SortedMap/Set/Vec, UnorderedMap/Set and Vec2 (with panics in retain/sort_by closures, and with the n-th destructor call panicking inside clear / truncate / retain of a Vec2 and inside SmallMap::clear, compared with the same operation on a plain Vec of pairs; and with the n-th clone of a value panicking inside Vec2::clone, SmallMap::clone and Vec2::extend). After every step every lookup by key, by index and by position for every key of the universe is compared with a Vec model; non-trivial = history with >= 1 removal/sort/retain on an indexed map or an injected panic; distinct = digest of the operation list",
            sim_time_unit: "container operations executed (each followed by a full comparison with the model)",
            real_components: vec!["starlark_map::SmallMap / SmallSet / VecMap / Vec2 / OrderedMap / OrderedSet / SortedMap / SortedSet / SortedVec / UnorderedMap / UnorderedSet", "hashbrown index inside SmallMap"],
            stub_components: vec!["key type with simulator-chosen hash and panicking Hash/Eq/Ord", "tracked value type detecting double drops"],
            assumptions: vec!["after a panic in a user callback the container may lose entries or keep a partial order, but must stay duplicate-free and internally consistent (the code's own RebuildIndexOnDrop guards state this intent)"],
            exhaustive: false,
        }
    }

    fn budget(&self, tier: Tier) -> Budget {
        match tier {
            Tier::Quick => Budget { runs: 6400 + 3000, wall_s: 120, block: 300, recheck: 48, hang_s: 120 },
            Tier::Thorough => Budget { runs: 6400 + 400_000, wall_s: 1500, block: 600, recheck: 200, hang_s: 300 },
        }
    }

    fn extra_evidence(&self, stats: &BTreeMap<String, u64>) -> Json {
        json!({
            "exhaustive_subspace": {
                "complete": true,
                "histories_enumerated": stats.get("exhaustive_histories").copied().unwrap_or(0),
                "description": "all operation sequences up to length 4 (quick) / 5 (thorough) over the 20-letter alphabet, on base maps of 15..18 entries, hash modes all-equal and sequential",
            }
        })
    }

    fn generate(&self, seed: u64, index: u64, tier: Tier) -> Json {
        let alpha = exhaustive_alphabet().len() as u64; // 18
        let n_ex = 4 * 2 * 2 * alpha * alpha; // sizes x modes x api x prefixes
        if index < n_ex {
            let size = 15 + (index % 4);
            let mode = if (index / 4) % 2 == 0 { 0 } else { 2 };
            let explicit = (index / 8) % 2 == 1;
            let p = index / 16;
            return json!({"kind": "exhaustive", "size": size, "mode": mode, "explicit": explicit,
                          "prefix": [p % alpha, (p / alpha) % alpha], "depth": if tier == Tier::Thorough { 3 } else { 2 }});
        }
        let root = Rng::new(run_seed(seed, "C11", index));
        let mut wl = root.fork("workload");
        let mut fl = root.fork("faults");
        let pick = wl.below(10);
        if pick >= 6 {
            let kinds = ["small_set", "ordered", "sorted", "unordered", "vec2"];
            return json!({"kind": kinds[(index % 5) as usize], "mode": wl.below(7), "seed": wl.next_u64() >> 8, "n": 40 + wl.below(200)});
        }
        let universe = *wl.pick(&[4u32, 8, 20, 24, 48]);
        let n = 5 + wl.usize(216);
        let mut ops: Vec<Json> = Vec::new();
        let mut len_est: i64 = 0;
        let mut grow = true;
        let fault_rate = *fl.pick(&[0u64, 0, 9, 9, 5, 20]);
        for _ in 0..n {
            if len_est > 24 {
                grow = false;
            }
            if len_est < 8 {
                grow = true;
            }
            let op = gen_op(&mut wl, universe, len_est.max(0) as usize, grow);
            match &op {
                Op::Insert(..) | Op::InsertUnique(..) | Op::OrInsertWith(..) | Op::AndModify(..) => len_est += 1,
                Op::Extend(_, n) => len_est += *n as i64,
                Op::RemoveKey(_) | Op::RemoveEntry(_) | Op::RemoveIndex(_) | Op::Pop => len_est -= 1,
                Op::Retain(m, _) => len_est -= len_est / (*m as i64).max(1),
                Op::Clear => len_est = 0,
                _ => {}
            }
            let fault = if fault_rate > 0 && fl.below(fault_rate) == 0 {
                let kind = *fl.pick(&["hash", "eq", "ord", "closure"]);
                json!([kind, 1 + fl.below(12)])
            } else {
                Json::Null
            };
            ops.push(json!([op.to_json(), fault]));
        }
        json!({"kind": "small_map", "mode": wl.below(7), "explicit": wl.bool(), "universe": universe, "ops": ops})
    }

    fn execute(&self, case: &Json) -> Outcome {
        let mut o = Outcome::default();
        o.digest = fnv(case.to_string().as_bytes());
        let kind = case["kind"].as_str().unwrap_or("");
        LIVE.with(|l| l.borrow_mut().clear());
        DOUBLE_DROP.with(|d| d.set(0));
        CALLS.with(|c| c.set([0; 4]));
        let mode = case["mode"].as_u64().unwrap_or(0);
        let res: Res = match kind {
            "exhaustive" => {
                o.nontrivial = true;
                let prefix: Vec<usize> = case["prefix"].as_array().map(|a| a.iter().filter_map(|x| x.as_u64().map(|x| x as usize)).collect()).unwrap_or_default();
                run_exhaustive(
                    case["size"].as_u64().unwrap_or(16) as u32,
                    &prefix,
                    case["depth"].as_u64().unwrap_or(2) as usize,
                    mode,
                    case["explicit"].as_bool().unwrap_or(false),
                    &mut o,
                )
            }
            "small_map" => {
                let empty = Vec::new();
                let ops: Vec<(Op, Option<(Cb, u64)>)> = case["ops"]
                    .as_array()
                    .unwrap_or(&empty)
                    .iter()
                    .filter_map(|j| {
                        let op = Op::from_json(&j[0])?;
                        let f = j[1].as_array().and_then(|a| {
                            let k = match a.first()?.as_str()? {
                                "hash" => Cb::Hash,
                                "eq" => Cb::Eq,
                                "ord" => Cb::Ord,
                                _ => Cb::Closure,
                            };
                            Some((k, a.get(1)?.as_u64()?))
                        });
                        Some((op, f))
                    })
                    .collect();
                let r = run_map_history(mode, case["explicit"].as_bool().unwrap_or(false), case["universe"].as_u64().unwrap_or(8) as u32, &ops, &mut o);
                o.nontrivial = o.stats.get("fault.panic_in_callback").copied().unwrap_or(0) > 0
                    || ops.iter().any(|(op, _)| matches!(op, Op::RemoveKey(_) | Op::RemoveIndex(_) | Op::SortKeys | Op::Retain(..) | Op::Reverse));
                r
            }
            other => {
                o.nontrivial = true;
                let r = run_other(other, mode, case["seed"].as_u64().unwrap_or(1), case["n"].as_u64().unwrap_or(50) as usize, &mut o);
                o.bump(&format!("probe.histories_{other}"), 1);
                r
            }
        };
        let calls = CALLS.with(|c| c.get());
        o.bump("callback_calls_hash", calls[0]);
        o.bump("callback_calls_eq", calls[1]);
        o.bump("callback_calls_ord", calls[2]);
        if let Err(e) = res {
            let key = if e.contains("after a panic") || e.contains("swallowed") { "panic-safety" } else { kind };
            o.violate("model-mismatch", key, e);
        }
        o.log_hash = fnv(format!("{:?}{:?}", o.stats, o.violation.as_ref().map(|v| v.detail.clone())).as_bytes());
        o
    }

    fn shrink(&self, case: &Json) -> Vec<Json> {
        let mut out = Vec::new();
        if case["kind"] == "small_map" {
            let empty = Vec::new();
            let ops = case["ops"].as_array().unwrap_or(&empty);
            let n = ops.len();
            // Truncate, then halves, then single removals, then drop faults.
            for cut in [n / 2, n * 3 / 4, n.saturating_sub(1)] {
                if cut < n && cut > 0 {
                    let mut c = case.clone();
                    c["ops"] = json!(ops[..cut].to_vec());
                    out.push(c);
                }
            }
            if n >= 4 {
                let mut c = case.clone();
                c["ops"] = json!(ops[n / 2..].to_vec());
                out.push(c);
            }
            for i in (0..n).rev() {
                let mut o2 = ops.clone();
                o2.remove(i);
                let mut c = case.clone();
                c["ops"] = json!(o2);
                out.push(c);
            }
            for i in 0..n {
                if !ops[i][1].is_null() {
                    let mut c = case.clone();
                    c["ops"][i][1] = Json::Null;
                    out.push(c);
                }
            }
        } else if case["kind"] != "exhaustive" {
            let n = case["n"].as_u64().unwrap_or(0);
            for cut in [n / 2, n * 3 / 4, n.saturating_sub(1)] {
                if cut > 0 && cut < n {
                    let mut c = case.clone();
                    c["n"] = json!(cut);
                    out.push(c);
                }
            }
        }
        out
    }
}
