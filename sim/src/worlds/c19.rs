//! C19 — IDE answers are well-formed and name resolution matches what the program does.
//!
//! The real `server_with_connection` runs on its own thread over `Connection::memory()`; the
//! simulator is the LSP client and the world behind `LspContext` (a simulated file system with
//! injectable I/O faults). The server is a single-threaded message loop and the client waits
//! for the response (requests) or the resulting publishDiagnostics (notifications), so a run is
//! a pure function of the client script.
//!
//! Documents are generated with deliberate shadowing (module / def / nested def / lambda /
//! comprehension / loop variables / parameters with defaults / load()) where every binding
//! assigns a distinct tag and every use reports the tag it read; the ground truth "which binding
//! does this use read" therefore comes from *running the program*, not from the generator.

use std::collections::BTreeMap;
use std::path::Path;
use std::path::PathBuf;
use std::sync::Arc;
use std::sync::Mutex;
use std::time::Duration;

use lsp_server::Connection;
use lsp_server::Message;
use lsp_server::Notification;
use lsp_server::Request;
use lsp_server::RequestId;
use lsp_server::Response;
use serde_json::Value as Json;
use serde_json::json;
use starlark::analysis::AstModuleLint;
use starlark::analysis::EvalMessage;
use starlark::docs::DocFunction;
use starlark::docs::DocItem;
use starlark::docs::DocMember;
use starlark::docs::DocModule;
use starlark::environment::Module;
use starlark::eval::Evaluator;
use starlark_lsp::error::eval_message_to_lsp_diagnostic;
use starlark_lsp::server::LspContext;
use starlark_lsp::server::LspEvalResult;
use starlark_lsp::server::LspUri;
use starlark_lsp::server::StringLiteralResult;
use starlark_lsp::server::server_with_connection;

use crate::core::*;
use crate::kit;
use crate::rng::Rng;
use crate::rng::fnv;

pub struct C19;

// ---------------------------------------------------------------------------------------------
// Independent position arithmetic (UTF-8 text -> line / UTF-16 column)

fn lines_of(text: &str) -> Vec<&str> {
    // LSP line terminators handled here: \n and \r\n (a trailing \r stays on the line; positions
    // are never placed on it).
    text.split('\n').collect()
}

fn utf16_len(s: &str) -> u32 {
    s.chars().map(|c| c.len_utf16() as u32).sum()
}

/// UTF-16 column of the char at char-index `ci` in `line`.
fn chars_to_utf16(line: &str, ci: usize) -> u32 {
    line.chars().take(ci).map(|c| c.len_utf16() as u32).sum()
}

/// The substring of `text` denoted by an LSP range under the UTF-16 convention, if valid.
fn slice_range(text: &str, sl: u32, sc: u32, el: u32, ec: u32) -> Result<String, String> {
    let lines = lines_of(text);
    let check = |l: u32, c: u32| -> Result<(usize, usize), String> {
        let line = lines.get(l as usize).ok_or(format!("line {l} beyond the {} lines of the document", lines.len()))?;
        let content = line.strip_suffix('\r').unwrap_or(line);
        if c > utf16_len(content) {
            return Err(format!("character {c} beyond the UTF-16 length {} of line {l}", utf16_len(content)));
        }
        // byte offset within the line
        let mut u = 0u32;
        let mut b = 0usize;
        for ch in content.chars() {
            if u >= c {
                break;
            }
            u += ch.len_utf16() as u32;
            b += ch.len_utf8();
        }
        if u != c {
            return Err(format!("character {c} of line {l} is inside a surrogate pair"));
        }
        Ok((l as usize, b))
    };
    if (sl, sc) > (el, ec) {
        return Err(format!("range start {sl}:{sc} after end {el}:{ec}"));
    }
    let (l1, b1) = check(sl, sc)?;
    let (l2, b2) = check(el, ec)?;
    if l1 == l2 {
        Ok(lines[l1][b1..b2].to_owned())
    } else {
        Ok(format!("{}...{}", &lines[l1][b1..], &lines[l2][..b2]))
    }
}

/// The same, interpreting the columns as counts of characters (code points): the model of the
/// recorded defect "outgoing columns are character counts, not UTF-16 code units".
fn slice_range_chars(text: &str, sl: u32, sc: u32, el: u32, ec: u32) -> Result<String, String> {
    let lines = lines_of(text);
    let conv = |l: u32, c: u32| -> Result<u32, String> {
        let line = lines.get(l as usize).ok_or("line out of range".to_owned())?;
        let content = line.strip_suffix('\r').unwrap_or(line);
        if c as usize > content.chars().count() {
            return Err("column out of range".to_owned());
        }
        Ok(chars_to_utf16(content, c as usize))
    };
    slice_range(text, sl, conv(sl, sc)?, el, conv(el, ec)?)
}

// ---------------------------------------------------------------------------------------------
// Document generator with run-time ground truth

#[derive(Clone, Debug)]
struct Binding {
    name: String,
    scope: usize,
    line: usize,
    col_chars: usize,
    tag: i64,
}

#[derive(Clone, Debug)]
struct UseSite {
    id: usize,
    name: String,
    line: usize,
    col_chars: usize,
}

struct DocGen<'r> {
    rng: &'r mut Rng,
    lines: Vec<String>,
    bindings: Vec<Binding>,
    uses: Vec<UseSite>,
    next_tag: i64,
    next_scope: usize,
    next_fn: usize,
    doc: usize,
    decorate: bool,
    crlf: bool,
}

const NAMES: &[&str] = &["a", "b", "c", "x"];
const DECOR: &[&str] = &["\"\\u00fc\"", "\"\\u65e5\\u672c\"", "\"\\U0001F600\"", "\"a\\U0001F600\\U0001F680b\"", "\"plain\""];

impl<'r> DocGen<'r> {
    fn tag(&mut self) -> i64 {
        self.next_tag += 1;
        self.next_tag
    }

    fn decor(&mut self) -> String {
        if self.decorate && self.rng.chance(1, 2) {
            // literal astral / non-ASCII characters (not escapes) so that columns really shift
            let d = *self.rng.pick(&["\"ü\"", "\"日本\"", "\"😀\"", "\"a😀🚀b\"", "\"plain\""]);
            let _ = DECOR;
            d.to_owned()
        } else {
            "\"d\"".to_owned()
        }
    }

    /// `mark("uK", <decor>, NAME)` — a use of NAME; the identifier's column is recorded.
    fn use_stmt(&mut self, indent: usize, name: &str) {
        let id = self.uses.len();
        let prefix = format!("{}mark(\"u{id}\", {}, ", " ".repeat(indent), self.decor());
        let col = prefix.chars().count();
        self.lines.push(format!("{prefix}{name})"));
        self.uses.push(UseSite { id, name: name.to_owned(), line: self.lines.len() - 1, col_chars: col });
    }

    fn bind_assign(&mut self, indent: usize, name: &str, scope: usize) {
        let t = self.tag();
        let comment = if self.decorate && self.rng.chance(1, 3) { "  # комментарий 😀" } else { "" };
        self.lines.push(format!("{}{name} = {t}{comment}", " ".repeat(indent)));
        self.bindings.push(Binding { name: name.to_owned(), scope, line: self.lines.len() - 1, col_chars: indent, tag: t });
    }

    /// Generate the body of a scope. `visible` = names readable here (bound in this or an enclosing scope).
    fn body(&mut self, indent: usize, scope: usize, depth: usize, visible: &mut Vec<String>, local: &mut Vec<String>) {
        let n = 2 + self.rng.usize(4);
        for _ in 0..n {
            match self.rng.below(9) {
                0 | 1 => {
                    // (re)bind a name that is local to this scope
                    if let Some(nm) = local.get(self.rng.usize(local.len().max(1))).cloned() {
                        self.bind_assign(indent, &nm, scope);
                    }
                }
                2 | 3 | 4 => {
                    if !visible.is_empty() {
                        let nm = visible[self.rng.usize(visible.len())].clone();
                        self.use_stmt(indent, &nm);
                    }
                }
                5 if depth < 3 => {
                    // nested def with parameters shadowing some names
                    let f = format!("f{}_{}", self.doc, self.next_fn);
                    self.next_fn += 1;
                    let fscope = self.next_scope;
                    self.next_scope += 1;
                    let np = 1 + self.rng.usize(2);
                    let mut params: Vec<String> = Vec::new();
                    let mut header = format!("{}def {f}(", " ".repeat(indent));
                    if self.decorate && self.rng.bool() {
                        header += &format!("deco = {}, ", self.decor());
                    }
                    // A local of the function that is bound first thing in its body (decided here so
                    // that a parameter default can mention the same name: defaults are evaluated in
                    // the enclosing scope).
                    let extra = NAMES[self.rng.usize(NAMES.len())].to_owned();
                    for i in 0..np {
                        let nm = NAMES[self.rng.usize(NAMES.len())].to_owned();
                        if params.contains(&nm) {
                            continue;
                        }
                        let t = self.tag();
                        if i > 0 || !params.is_empty() {
                            header += ", ";
                        }
                        let col = header.chars().count();
                        self.bindings.push(Binding { name: nm.clone(), scope: fscope, line: self.lines.len(), col_chars: col, tag: t });
                        // The default value may read the enclosing scope's variable of the same name as
                        // the parameter, or of the same name as a local of the function.
                        let outer = if visible.contains(&nm) && self.rng.bool() {
                            Some(nm.clone())
                        } else if visible.contains(&extra) && !params.contains(&extra) && extra != nm && self.rng.chance(1, 3) {
                            Some(extra.clone())
                        } else {
                            None
                        };
                        match outer {
                            Some(on) => {
                                let id = self.uses.len();
                                let pre = format!("{header}{nm} = [mark(\"u{id}\", {}, ", self.decor());
                                self.uses.push(UseSite { id, name: on.clone(), line: self.lines.len(), col_chars: pre.chars().count() });
                                header = format!("{pre}{on}), {t}][1]");
                            }
                            None => header += &format!("{nm} = {t}"),
                        }
                        params.push(nm);
                    }
                    header += "):";
                    self.lines.push(header);
                    // extra local of the function, bound first thing
                    let mut flocal = params.clone();
                    if !flocal.contains(&extra) && self.rng.bool() {
                        self.bind_assign(indent + 4, &extra, fscope);
                        flocal.push(extra);
                    }
                    let mut fvisible = visible.clone();
                    for p in &flocal {
                        if !fvisible.contains(p) {
                            fvisible.push(p.clone());
                        }
                    }
                    self.body(indent + 4, fscope, depth + 1, &mut fvisible, &mut flocal);
                    self.lines.push(format!("{}return None", " ".repeat(indent + 4)));
                    self.lines.push(format!("{}{f}()", " ".repeat(indent)));
                }
                6 => {
                    // comprehension scope binding one name
                    let nm = NAMES[self.rng.usize(NAMES.len())].to_owned();
                    let t = self.tag();
                    let cscope = self.next_scope;
                    self.next_scope += 1;
                    let id = self.uses.len();
                    let other = if !visible.is_empty() && self.rng.bool() { Some(visible[self.rng.usize(visible.len())].clone()) } else { None };
                    let prefix = format!("{}_ = [mark(\"u{id}\", {}, ", " ".repeat(indent), self.decor());
                    let col = prefix.chars().count();
                    let mid = format!("{prefix}{nm}) for ");
                    let bcol = mid.chars().count();
                    self.uses.push(UseSite { id, name: nm.clone(), line: self.lines.len(), col_chars: col });
                    self.bindings.push(Binding { name: nm.clone(), scope: cscope, line: self.lines.len(), col_chars: bcol, tag: t });
                    let mut line = format!("{mid}{nm} in ");
                    // The iterable of the FIRST for clause is evaluated in the enclosing scope: a use of
                    // the same name there reads the enclosing binding, not the comprehension's.
                    if visible.contains(&nm) && self.rng.chance(1, 2) {
                        let id2 = self.uses.len();
                        let p2 = format!("{line}[{t}, mark(\"u{id2}\", {}, ", self.decor());
                        self.uses.push(UseSite { id: id2, name: nm.clone(), line: self.lines.len(), col_chars: p2.chars().count() });
                        line = format!("{p2}{nm})][:1]");
                    } else {
                        line = format!("{line}[{t}]");
                    }
                    // A second for clause: its iterable and any `if` are inside the comprehension scope.
                    if self.rng.chance(1, 3) {
                        let nm2 = NAMES[self.rng.usize(NAMES.len())].to_owned();
                        if nm2 != nm {
                            let t2 = self.tag();
                            let p3 = format!("{line} for ");
                            self.bindings.push(Binding { name: nm2.clone(), scope: cscope, line: self.lines.len(), col_chars: p3.chars().count(), tag: t2 });
                            let id3 = self.uses.len();
                            let p4 = format!("{p3}{nm2} in [{t2}, mark(\"u{id3}\", {}, ", self.decor());
                            self.uses.push(UseSite { id: id3, name: nm.clone(), line: self.lines.len(), col_chars: p4.chars().count() });
                            line = format!("{p4}{nm})][:1]");
                            if self.rng.bool() {
                                let id4 = self.uses.len();
                                let p5 = format!("{line} if mark(\"u{id4}\", {}, ", self.decor());
                                self.uses.push(UseSite { id: id4, name: nm2.clone(), line: self.lines.len(), col_chars: p5.chars().count() });
                                line = format!("{p5}{nm2}) == None");
                            }
                        }
                    }
                    self.lines.push(format!("{line}]"));
                    if let Some(o) = other {
                        if o != nm {
                            self.use_stmt(indent, &o);
                        }
                    }
                }
                7 => {
                    // lambda with a default parameter
                    let nm = NAMES[self.rng.usize(NAMES.len())].to_owned();
                    let t = self.tag();
                    let lscope = self.next_scope;
                    self.next_scope += 1;
                    let id = self.uses.len();
                    let p1 = format!("{}(lambda ", " ".repeat(indent));
                    let bcol = p1.chars().count();
                    if visible.contains(&nm) && self.rng.bool() {
                        // default = [use of the enclosing `nm`, own tag][1]
                        let pd = format!("{p1}{nm} = [mark(\"u{id}\", {}, ", self.decor());
                        self.uses.push(UseSite { id, name: nm.clone(), line: self.lines.len(), col_chars: pd.chars().count() });
                        let id2 = self.uses.len();
                        let p2 = format!("{pd}{nm}), {t}][1]: mark(\"u{id2}\", {}, ", self.decor());
                        let col = p2.chars().count();
                        self.uses.push(UseSite { id: id2, name: nm.clone(), line: self.lines.len(), col_chars: col });
                        self.lines.push(format!("{p2}{nm}))()"));
                    } else {
                        let p2 = format!("{p1}{nm} = {t}: mark(\"u{id}\", {}, ", self.decor());
                        let col = p2.chars().count();
                        self.lines.push(format!("{p2}{nm}))()"));
                        self.uses.push(UseSite { id, name: nm.clone(), line: self.lines.len() - 1, col_chars: col });
                    }
                    self.bindings.push(Binding { name: nm, scope: lscope, line: self.lines.len() - 1, col_chars: bcol, tag: t });
                }
                _ => {
                    // for loop: the loop variable is a binding of the enclosing (function / module) scope
                    if let Some(nm) = local.get(self.rng.usize(local.len().max(1))).cloned() {
                        let t = self.tag();
                        let p = format!("{}for ", " ".repeat(indent));
                        let bcol = p.chars().count();
                        self.lines.push(format!("{p}{nm} in [{t}]:"));
                        self.bindings.push(Binding { name: nm.clone(), scope, line: self.lines.len() - 1, col_chars: bcol, tag: t });
                        self.use_stmt(indent + 4, &nm);
                    }
                }
            }
        }
    }
}

struct GenDoc {
    text: String,
    bindings: Vec<Binding>,
    uses: Vec<UseSite>,
}

fn gen_doc(rng: &mut Rng, doc: usize, load_from: Option<(&str, &str)>) -> GenDoc {
    let decorate = rng.chance(3, 4);
    let crlf = rng.chance(1, 4);
    let mut g = DocGen { rng, lines: vec![], bindings: vec![], uses: vec![], next_tag: 1000 * (doc as i64 + 1), next_scope: 100 * (doc + 1), next_fn: 0, doc, decorate, crlf };
    let mscope = g.next_scope;
    g.next_scope += 1;
    if g.decorate {
        g.lines.push("# файл с не-ASCII: ü 日本 😀".to_owned());
    }
    let mut local: Vec<String> = Vec::new();
    let mut visible: Vec<String> = Vec::new();
    if let Some((file, sym)) = load_from {
        // Sometimes through an alias (the alias equals the exported name so that the rest of the
        // document is the same either way).
        if g.rng.chance(1, 3) {
            g.lines.push(format!("load(\"{file}\", {sym} = \"{sym}\")"));
        } else {
            g.lines.push(format!("load(\"{file}\", \"{sym}\")"));
        }
        visible.push(sym.to_owned());
        g.use_stmt(0, sym);
    }
    for nm in NAMES {
        if load_from.map(|(_, s)| s == *nm).unwrap_or(false) {
            continue;
        }
        if g.rng.chance(3, 4) {
            g.bind_assign(0, nm, mscope);
            local.push((*nm).to_owned());
            visible.push((*nm).to_owned());
        }
    }
    if local.is_empty() {
        g.bind_assign(0, "a", mscope);
        local.push("a".to_owned());
        visible.push("a".to_owned());
    }
    g.body(0, mscope, 0, &mut visible, &mut local);
    let nl = if g.crlf { "\r\n" } else { "\n" };
    GenDoc { text: g.lines.join(nl) + nl, bindings: g.bindings, uses: g.uses }
}

// ---------------------------------------------------------------------------------------------
// Simulated world behind LspContext

#[derive(Default)]
struct FsState {
    files: BTreeMap<PathBuf, String>,
    /// Paths whose resolve_load fails.
    fail_resolve: Vec<String>,
    /// Paths whose get_load_contents returns an I/O error / reports a missing file.
    fail_read: Vec<PathBuf>,
    missing: Vec<PathBuf>,
    faults_fired: BTreeMap<String, u64>,
}

struct SimContext {
    fs: Arc<Mutex<FsState>>,
}

impl LspContext for SimContext {
    fn parse_file_with_contents(&self, uri: &LspUri, content: String) -> LspEvalResult {
        match uri {
            LspUri::File(path) | LspUri::Starlark(path) => match starlark::syntax::AstModule::parse(&path.to_string_lossy(), content, &kit::dialect()) {
                Ok(ast) => {
                    let diagnostics = ast.lint(None).into_iter().map(|l| eval_message_to_lsp_diagnostic(EvalMessage::from(l))).collect();
                    LspEvalResult { diagnostics, ast: Some(ast) }
                }
                Err(e) => LspEvalResult { diagnostics: vec![eval_message_to_lsp_diagnostic(EvalMessage::from_error(path, &e))], ast: None },
            },
            _ => LspEvalResult::default(),
        }
    }

    fn resolve_load(&self, path: &str, current_file: &LspUri, _workspace_root: Option<&Path>) -> Result<LspUri, String> {
        let mut fs = self.fs.lock().unwrap();
        if fs.fail_resolve.iter().any(|p| p == path) {
            *fs.faults_fired.entry("resolve_load_error".to_owned()).or_insert(0) += 1;
            return Err(format!("simulated resolver failure for `{path}`"));
        }
        match current_file {
            LspUri::File(cur) => {
                let dir = cur.parent().unwrap_or(Path::new("/"));
                Ok(LspUri::File(dir.join(path)))
            }
            _ => Err("load from a non-file document".to_owned()),
        }
    }

    fn render_as_load(&self, target: &LspUri, _current_file: &LspUri, _workspace_root: Option<&Path>) -> Result<String, String> {
        Ok(target.path().file_name().map(|f| f.to_string_lossy().into_owned()).unwrap_or_default())
    }

    fn resolve_string_literal(&self, _literal: &str, _current_file: &LspUri, _workspace_root: Option<&Path>) -> Result<Option<StringLiteralResult>, String> {
        Ok(None)
    }

    fn get_load_contents(&self, uri: &LspUri) -> Result<Option<String>, String> {
        let mut fs = self.fs.lock().unwrap();
        match uri {
            LspUri::File(p) => {
                if fs.fail_read.contains(p) {
                    *fs.faults_fired.entry("read_io_error".to_owned()).or_insert(0) += 1;
                    return Err(format!("simulated I/O error reading {}", p.display()));
                }
                if fs.missing.contains(p) {
                    *fs.faults_fired.entry("file_missing".to_owned()).or_insert(0) += 1;
                    return Ok(None);
                }
                Ok(fs.files.get(p).cloned())
            }
            _ => Ok(None),
        }
    }

    fn get_environment(&self, _uri: &LspUri) -> DocModule {
        DocModule {
            docs: None,
            members: ["mark", "emit", "len", "print"].iter().map(|n| ((*n).to_owned(), DocItem::Member(DocMember::Function(DocFunction::default())))).collect(),
        }
    }

    fn get_uri_for_global_symbol(&self, _current_file: &LspUri, _symbol: &str) -> Result<Option<LspUri>, String> {
        Ok(None)
    }
}

// ---------------------------------------------------------------------------------------------
// The simulated client

struct Client {
    conn: Connection,
    next_id: i32,
    notifications: Vec<Notification>,
    hang: bool,
    requests: u64,
}

const TIMEOUT: Duration = Duration::from_secs(20);

impl Client {
    fn request(&mut self, method: &str, params: Json) -> Result<Response, String> {
        self.next_id += 1;
        let id = RequestId::from(self.next_id);
        self.requests += 1;
        self.conn.sender.send(Message::Request(Request { id: id.clone(), method: method.to_owned(), params })).map_err(|e| format!("send failed: {e}"))?;
        loop {
            match self.conn.receiver.recv_timeout(TIMEOUT) {
                Err(_) => {
                    self.hang = true;
                    return Err(format!("no response to `{method}` within the timeout"));
                }
                Ok(Message::Response(r)) => {
                    if r.id == id {
                        return Ok(r);
                    }
                    return Err(format!("response for request {:?} while waiting for {:?} (out of order)", r.id, id));
                }
                Ok(Message::Notification(n)) => self.notifications.push(n),
                Ok(Message::Request(r)) => return Err(format!("server sent a request: {}", r.method)),
            }
        }
    }

    fn notify(&mut self, method: &str, params: Json) -> Result<(), String> {
        self.conn.sender.send(Message::Notification(Notification { method: method.to_owned(), params })).map_err(|e| format!("send failed: {e}"))
    }

    /// Wait for the publishDiagnostics for `uri` that follows an open / change / close.
    fn wait_diagnostics(&mut self, uri: &str) -> Result<Json, String> {
        loop {
            if let Some(i) = self.notifications.iter().position(|n| n.method == "textDocument/publishDiagnostics" && n.params["uri"] == uri) {
                return Ok(self.notifications.remove(i).params);
            }
            match self.conn.receiver.recv_timeout(TIMEOUT) {
                Err(_) => {
                    self.hang = true;
                    return Err(format!("no publishDiagnostics for {uri} within the timeout"));
                }
                Ok(Message::Notification(n)) => self.notifications.push(n),
                Ok(Message::Response(r)) => return Err(format!("unexpected response {:?}", r.id)),
                Ok(Message::Request(r)) => return Err(format!("server sent a request: {}", r.method)),
            }
        }
    }
}

fn uri_of(name: &str) -> String {
    format!("file:///ws/{name}")
}

fn path_of(name: &str) -> PathBuf {
    PathBuf::from(format!("/ws/{name}"))
}

/// Collect every `range`-like object of a JSON value: (path, startLine, startChar, endLine, endChar, uri if a sibling says so).
fn collect_ranges(j: &Json, path: &str, uri_ctx: Option<&str>, out: &mut Vec<(String, u32, u32, u32, u32, Option<String>)>) {
    match j {
        Json::Object(m) => {
            let here_uri = m.get("uri").or(m.get("targetUri")).and_then(|u| u.as_str()).map(|s| s.to_owned());
            let ctx = here_uri.as_deref().or(uri_ctx);
            for (k, v) in m {
                let is_range = v.get("start").map(|s| s.get("line").is_some()).unwrap_or(false) && v.get("end").is_some();
                if is_range {
                    let g = |a: &str, b: &str| v[a][b].as_u64().unwrap_or(u64::MAX) as u32;
                    // originSelectionRange refers to the requesting document, not the target.
                    let u = if k == "originSelectionRange" { uri_ctx.map(|s| s.to_owned()) } else { ctx.map(|s| s.to_owned()) };
                    out.push((format!("{path}.{k}"), g("start", "line"), g("start", "character"), g("end", "line"), g("end", "character"), u));
                } else {
                    collect_ranges(v, &format!("{path}.{k}"), ctx, out);
                }
            }
        }
        Json::Array(a) => {
            for (i, v) in a.iter().enumerate() {
                collect_ranges(v, &format!("{path}[{i}]"), uri_ctx, out);
            }
        }
        _ => {}
    }
}

/// Run the documents through the evaluator: use id -> set of tags read.
fn ground_truth(docs: &[(String, String)]) -> BTreeMap<(usize, usize), Vec<i64>> {
    let mut out: BTreeMap<(usize, usize), Vec<i64>> = BTreeMap::new();
    let mut frozen: BTreeMap<String, starlark::environment::FrozenModule> = BTreeMap::new();
    for (di, (name, text)) in docs.iter().enumerate() {
        kit::ctx_reset();
        let loader = kit::MapLoader { modules: frozen.clone() };
        let fm = Module::with_temp_heap(|m| {
            {
                let mut e = Evaluator::new(&m);
                e.set_loader(&loader);
                if let Ok(ast) = kit::parse(name, text) {
                    let _ = e.eval_module(ast, kit::globals());
                }
            }
            m.freeze()
        });
        for l in kit::take_transcript() {
            // mark "u3","d",1005
            if let Some(rest) = l.strip_prefix("mark \"u") {
                let mut it = rest.splitn(2, '"');
                let id: usize = it.next().and_then(|x| x.parse().ok()).unwrap_or(usize::MAX);
                let tag: Option<i64> = rest.rsplit(',').next().and_then(|x| x.trim().parse().ok());
                if let Some(t) = tag {
                    let v = out.entry((di, id)).or_default();
                    if !v.contains(&t) {
                        v.push(t);
                    }
                }
            }
        }
        if let Ok(fm) = fm {
            frozen.insert(name.clone(), fm);
        }
    }
    out
}

impl World for C19 {
    fn id(&self) -> &'static str {
        "C19"
    }

    fn describe(&self) -> Describe {
        Describe {
            level: "exploration",
            rule: "case = session over 1-3 generated documents (nested defs / lambdas / comprehensions / loops with deliberate shadowing, parameters with defaults, load() between documents, non-ASCII and astral characters in strings and comments before identifiers, LF or CRLF) : open, gotoDefinition + hover + completion at every identifier use and at seeded other positions (past end of line / file, inside strings), change valid -> invalid -> valid, close, re-open, requests on closed and never-opened documents, double open/close, shutdown; simulated file-system faults (resolve_load error, unreadable / missing loaded file); the ground truth of each use is obtained by running the documents (each binding assigns a distinct tag); non-trivial = at least one gotoDefinition on a use with a run-time ground truth was checked; distinct = digest of (documents, script)",
            sim_time_unit: "LSP messages exchanged (requests + notifications)",
            real_components: vec!["starlark_lsp server loop (server_with_connection)", "definition / bind / symbols / completion / hover", "AstModule parse + lint diagnostics", "codemap position arithmetic"],
            stub_components: vec!["LSP client (in-memory lsp_server::Connection)", "LspContext: simulated file system with I/O faults, resolver, environment"],
            assumptions: vec![
                "message loss / reordering is not injected: LSP runs over a reliable ordered stream",
                "columns are checked under the protocol's default UTF-16 convention as the property states",
                "go-to-definition may answer with any binding of the name in the scope the running program reads from",
            ],
            exhaustive: false,
        }
    }

    fn budget(&self, tier: Tier) -> Budget {
        match tier {
            Tier::Quick => Budget { runs: 500, wall_s: 120, block: 25, recheck: 16, hang_s: 120 },
            Tier::Thorough => Budget { runs: 100_000, wall_s: 1500, block: 100, recheck: 64, hang_s: 120 },
        }
    }

    fn generate(&self, seed: u64, index: u64, _tier: Tier) -> Json {
        let root = Rng::new(run_seed(seed, "C19", index));
        let mut wl = root.fork("workload");
        let mut fl = root.fork("faults");
        let nd = 1 + wl.usize(3);
        let mut docs: Vec<Json> = Vec::new();
        for d in 0..nd {
            let load = if d > 0 && wl.chance(2, 3) { Some(("d0.star", "a")) } else { None };
            let g = gen_doc(&mut wl, d, load);
            let binds: Vec<Json> = g.bindings.iter().map(|b| json!([b.name, b.scope, b.line, b.col_chars, b.tag])).collect();
            let uses: Vec<Json> = g.uses.iter().map(|u| json!([u.id, u.name, u.line, u.col_chars])).collect();
            docs.push(json!({"name": format!("d{d}.star"), "text": g.text, "bindings": binds, "uses": uses}));
        }
        let fault = match fl.below(8) {
            0 => "resolve_error",
            1 => "read_error",
            2 => "missing",
            _ => "none",
        };
        // The loaded document may exist on the simulated disk only (never opened in the editor):
        // then the server reads it through the embedder's file access, where the faults are.
        let d0_on_disk_only = nd > 1 && (fault != "none" || fl.chance(1, 4)) && fl.chance(3, 4);
        json!({"docs": docs, "fault": fault, "script_seed": fl.next_u64() >> 8, "invalid_interval": fl.chance(1, 2), "reopen": fl.chance(1, 2), "d0_on_disk_only": d0_on_disk_only})
    }

    fn execute(&self, case: &Json) -> Outcome {
        let mut o = Outcome::default();
        o.digest = fnv(case.to_string().as_bytes());
        let empty = Vec::new();
        let docs_j = case["docs"].as_array().unwrap_or(&empty);
        let docs: Vec<(String, String)> = docs_j.iter().map(|d| (d["name"].as_str().unwrap_or("").to_owned(), d["text"].as_str().unwrap_or("").to_owned())).collect();
        let truth = ground_truth(&docs);
        let mut rng = Rng::new(case["script_seed"].as_u64().unwrap_or(1));
        let mut log: Vec<String> = Vec::new();

        // World.
        let fs = Arc::new(Mutex::new(FsState::default()));
        {
            let mut f = fs.lock().unwrap();
            for (n, t) in &docs {
                f.files.insert(path_of(n), t.clone());
            }
            match case["fault"].as_str().unwrap_or("none") {
                "resolve_error" => f.fail_resolve.push("d0.star".to_owned()),
                "read_error" => f.fail_read.push(path_of("d0.star")),
                "missing" => f.missing.push(path_of("d0.star")),
                _ => {}
            }
        }
        let (server_conn, client_conn) = Connection::memory();
        let ctx = SimContext { fs: fs.clone() };
        let server = std::thread::Builder::new()
            .stack_size(64 << 20)
            .spawn(move || {
                let r = std::panic::catch_unwind(std::panic::AssertUnwindSafe(|| server_with_connection(server_conn, ctx)));
                match r {
                    Ok(Ok(())) => Ok(()),
                    Ok(Err(e)) => Err(format!("server returned error: {e}")),
                    Err(_) => Err(format!("server panicked: {}", take_last_panic().unwrap_or_default())),
                }
            })
            .expect("spawn server");
        let mut cl = Client { conn: client_conn, next_id: 0, notifications: vec![], hang: false, requests: 0 };
        // The model: uri -> (current text, last text that parsed).
        let mut model: BTreeMap<String, (Option<String>, Option<String>)> = BTreeMap::new();
        let parses = |t: &str| kit::parse("x.star", t).is_ok();

        macro_rules! bail {
            ($class:expr, $key:expr, $($arg:tt)*) => {{
                o.violate($class, $key, format!($($arg)*));
            }};
        }

        // initialize
        let init = cl.request("initialize", json!({"capabilities": {"textDocument": {"definition": {"linkSupport": true}}}, "rootUri": "file:///ws", "processId": null}));
        if let Err(e) = &init {
            bail!("lsp-protocol", "protocol", "initialize: {e}");
        }
        let _ = cl.notify("initialized", json!({}));

        // Validate every range of a JSON answer against the text the model says it is based on.
        let check_ranges = |o: &mut Outcome, what: &str, j: &Json, default_uri: &str, model: &BTreeMap<String, (Option<String>, Option<String>)>, docs: &[(String, String)]| {
            let mut rs = Vec::new();
            collect_ranges(j, "", Some(default_uri), &mut rs);
            for (p, sl, sc, el, ec, uri) in rs {
                let uri = uri.unwrap_or_else(|| default_uri.to_owned());
                // Text: the last text that parsed (definitions are based on it), else the current text, else the file on disk.
                let texts: Vec<String> = {
                    let mut v = Vec::new();
                    if let Some((cur, last)) = model.get(&uri) {
                        if let Some(l) = last {
                            v.push(l.clone());
                        }
                        if let Some(c) = cur {
                            v.push(c.clone());
                        }
                    }
                    if let Some((_, t)) = docs.iter().find(|(n, _)| uri_of(n) == uri) {
                        v.push(t.clone());
                    }
                    v
                };
                if texts.is_empty() {
                    continue;
                }
                o.bump("ranges_validated", 1);
                let ok = texts.iter().any(|t| slice_range(t, sl, sc, el, ec).is_ok());
                if !ok {
                    let err = slice_range(&texts[0], sl, sc, el, ec).err().unwrap_or_default();
                    let astral = texts.iter().any(|t| {
                        let ls = lines_of(t);
                        [sl, el].iter().any(|l| ls.get(*l as usize).map(|x| x.chars().any(|c| c.len_utf16() == 2)).unwrap_or(false))
                    });
                    if astral && texts.iter().any(|t| slice_range_chars(t, sl, sc, el, ec).is_ok()) {
                        // Valid when the columns are read as character counts: the recorded defect.
                        o.note_known("range/astral-char-columns", format!("{what}: {p} = {sl}:{sc}-{el}:{ec} in {uri} is only valid as character counts, not as UTF-16 columns: {err}"));
                    } else {
                        o.violate("invalid-range", "range", format!("{what}: {p} = {sl}:{sc}-{el}:{ec} in {uri}: {err}"));
                    }
                }
            }
        };

        // Open all documents (except a loaded document that lives on the simulated disk only).
        let disk_only = case["d0_on_disk_only"].as_bool().unwrap_or(false) && docs.len() > 1;
        if disk_only {
            o.bump("probe.sessions_with_loaded_file_on_disk_only", 1);
        }
        let mut version = 1;
        for (di, (name, text)) in docs.iter().enumerate() {
            if o.violation.is_some() {
                break;
            }
            if disk_only && di == 0 {
                continue;
            }
            let uri = uri_of(name);
            let _ = cl.notify("textDocument/didOpen", json!({"textDocument": {"uri": uri, "languageId": "starlark", "version": version, "text": text}}));
            version += 1;
            model.insert(uri.clone(), (Some(text.clone()), if parses(text) { Some(text.clone()) } else { None }));
            match cl.wait_diagnostics(&uri) {
                Ok(d) => check_ranges(&mut o, "diagnostics after didOpen", &d, &uri, &model, &docs),
                Err(e) => bail!("lsp-protocol", "protocol", "{e}"),
            }
        }

        // Requests at every identifier use.
        for (di, dj) in docs_j.iter().enumerate() {
            if o.violation.is_some() {
                break;
            }
            if disk_only && di == 0 {
                continue;
            }
            let (name, text) = &docs[di];
            let uri = uri_of(name);
            let lines = lines_of(text);
            let bindings: Vec<Binding> = dj["bindings"]
                .as_array()
                .unwrap_or(&empty)
                .iter()
                .map(|b| Binding { name: b[0].as_str().unwrap_or("").to_owned(), scope: b[1].as_u64().unwrap_or(0) as usize, line: b[2].as_u64().unwrap_or(0) as usize, col_chars: b[3].as_u64().unwrap_or(0) as usize, tag: b[4].as_i64().unwrap_or(0) })
                .collect();
            for u in dj["uses"].as_array().unwrap_or(&empty) {
                if o.violation.is_some() {
                    break;
                }
                let (uid, uname, uline, ucol) = (u[0].as_u64().unwrap_or(0) as usize, u[1].as_str().unwrap_or(""), u[2].as_u64().unwrap_or(0) as usize, u[3].as_u64().unwrap_or(0) as usize);
                let line_text = lines.get(uline).copied().unwrap_or("");
                let col16 = chars_to_utf16(line_text, ucol);
                let astral_before = line_text.chars().take(ucol).any(|c| c.len_utf16() == 2);
                let pos = json!({"line": uline, "character": col16});
                // gotoDefinition
                let r = cl.request("textDocument/definition", json!({"textDocument": {"uri": uri}, "position": pos}));
                o.sim_time += 1;
                match r {
                    Err(e) => {
                        bail!("lsp-protocol", "protocol", "definition at {name}:{uline}:{col16}: {e}");
                        break;
                    }
                    Ok(resp) => {
                        if let Some(err) = resp.error {
                            log.push(format!("definition error {}", err.message));
                            continue;
                        }
                        let res = resp.result.unwrap_or(Json::Null);
                        check_ranges(&mut o, &format!("definition of `{uname}` at {name}:{uline}:{col16}"), &res, &uri, &model, &docs);
                        if o.violation.is_some() {
                            break;
                        }
                        // Ground truth: which binding did the running program read here?
                        let Some(tags) = truth.get(&(di, uid)) else { continue };
                        if tags.len() != 1 {
                            continue;
                        }
                        let tag = tags[0];
                        // The binding may live in another document (load).
                        let owner = docs_j.iter().enumerate().find_map(|(oi, od)| {
                            od["bindings"].as_array().and_then(|a| a.iter().find(|b| b[4].as_i64() == Some(tag))).map(|b| (oi, b.clone()))
                        });
                        let Some((owner_doc, ob)) = owner else { continue };
                        let truth_scope = ob[1].as_u64().unwrap_or(0) as usize;
                        o.nontrivial = true;
                        o.bump("probe.definitions_checked_against_runtime", 1);
                        if astral_before {
                            o.bump("probe.positions_after_astral_characters", 1);
                        }
                        let links: Vec<Json> = match &res {
                            Json::Array(a) => a.clone(),
                            Json::Null => vec![],
                            other => vec![other.clone()],
                        };
                        let key_sfx = if astral_before { "/astral-line" } else { "" };
                        if links.is_empty() {
                            o.violate("definition-missing", &format!("definition{key_sfx}"), format!("no definition for use u{uid} of `{uname}` at {name}:{uline}:{col16} (program reads tag {tag})"));
                            break;
                        }
                        let l0 = &links[0];
                        let turi = l0["targetUri"].as_str().or(l0["uri"].as_str()).unwrap_or("").to_owned();
                        let rng_j = if l0.get("targetSelectionRange").is_some() { &l0["targetSelectionRange"] } else if l0.get("targetRange").is_some() { &l0["targetRange"] } else { &l0["range"] };
                        let (sl, sc, el, ec) = (
                            rng_j["start"]["line"].as_u64().unwrap_or(0) as u32,
                            rng_j["start"]["character"].as_u64().unwrap_or(0) as u32,
                            rng_j["end"]["line"].as_u64().unwrap_or(0) as u32,
                            rng_j["end"]["character"].as_u64().unwrap_or(0) as u32,
                        );
                        let target_doc = docs.iter().position(|(n, _)| uri_of(n) == turi);
                        let Some(td) = target_doc else {
                            o.violate("definition-wrong", &format!("definition{key_sfx}"), format!("use u{uid} of `{uname}`: target uri {turi} is not a session document"));
                            break;
                        };
                        let ttext = &docs[td].1;
                        let got = slice_range(ttext, sl, sc, el, ec).unwrap_or_default();
                        let tlines = lines_of(ttext);
                        let target_astral = tlines.get(sl as usize).map(|l| l.chars().any(|c| c.len_utf16() == 2)).unwrap_or(false);
                        let key_sfx = if astral_before || target_astral { "/astral-line" } else { "" };
                        // In the same document the answer must denote a binding of that name in the ground-truth scope.
                        if td == di && owner_doc == di {
                            let same_scope: Vec<&Binding> = bindings.iter().filter(|b| b.name == uname && b.scope == truth_scope).collect();
                            let hit = same_scope.iter().any(|b| {
                                let bl = tlines.get(b.line).copied().unwrap_or("");
                                b.line as u32 == sl && chars_to_utf16(bl, b.col_chars) == sc
                            });
                            // A load() statement binds its local names in the module scope too: when the
                            // program reads a module-level name that is loaded first and assigned later,
                            // the load's local name is "a binding of that same name in that scope".
                            let load_binding = truth_scope == (di + 1) * 100
                                && sl == el
                                && tlines.get(sl as usize).map(|l| l.starts_with("load(")).unwrap_or(false)
                                && (got == uname || got == format!("\"{uname}\""));
                            if load_binding {
                                o.bump("probe.definitions_answered_with_load_binding_of_reassigned_name", 1);
                            }
                            let hit = hit || load_binding;
                            let got = if load_binding { uname.to_owned() } else { got };
                            // Model of the recorded defect: the answer is right when its columns are read as
                            // character counts (differs from UTF-16 only on lines with astral characters).
                            let got_chars = slice_range_chars(ttext, sl, sc, el, ec).unwrap_or_default();
                            let hit_chars = same_scope.iter().any(|b| b.line as u32 == sl && b.col_chars as u32 == sc);
                            if (got != uname || !hit) && target_astral && got_chars == uname && hit_chars {
                                o.note_known("definition/astral-char-columns", format!("use u{uid} of `{uname}` at {name}:{uline}:{col16}: go-to-definition answered {sl}:{sc}-{el}:{ec}, which denotes the binding only if columns are character counts (UTF-16 reading gives `{got}`)"));
                            } else if got != uname || !hit {
                                let any_scope = bindings.iter().any(|b| {
                                    let bl = tlines.get(b.line).copied().unwrap_or("");
                                    b.name == uname && b.line as u32 == sl && chars_to_utf16(bl, b.col_chars) == sc
                                });
                                let class = if got == uname && any_scope { "definition-wrong-scope" } else { "definition-wrong" };
                                o.violate(
                                    class,
                                    &format!("definition{key_sfx}"),
                                    format!(
                                        "use u{uid} of `{uname}` at {name}:{uline}:{col16}: program reads the binding with tag {tag} (scope {truth_scope}, line {}), go-to-definition answered {sl}:{sc}-{el}:{ec} = `{got}`",
                                        ob[2]
                                    ),
                                );
                                break;
                            }
                        } else if owner_doc != di {
                            // Loaded symbol: either the load statement here or the binding in the loaded document.
                            o.bump("probe.definitions_of_loaded_symbols", 1);
                            if td == owner_doc {
                                let got_chars = slice_range_chars(ttext, sl, sc, el, ec).unwrap_or_default();
                                if got != uname && target_astral && got_chars == uname {
                                    o.note_known("definition/astral-char-columns", format!("loaded `{uname}`: answer {sl}:{sc}-{el}:{ec} in {turi} denotes the binding only if columns are character counts"));
                                } else if got != uname {
                                    o.violate("definition-wrong", &format!("definition-loaded{key_sfx}"), format!("loaded `{uname}`: answer {sl}:{sc}-{el}:{ec} in {turi} is `{got}`"));
                                    break;
                                }
                            } else if td == di {
                                if !got.contains(uname) {
                                    o.violate("definition-wrong", &format!("definition-loaded{key_sfx}"), format!("loaded `{uname}`: answer in the same document is `{got}`"));
                                    break;
                                }
                            }
                        }
                    }
                }
                // hover + completion at the same position and at seeded other positions
                for (method, extra) in [("textDocument/hover", json!({})), ("textDocument/completion", json!({"context": {"triggerKind": 1}}))] {
                    let mut p = json!({"textDocument": {"uri": uri}, "position": pos});
                    if let Some(m) = extra.as_object() {
                        for (k, v) in m {
                            p[k] = v.clone();
                        }
                    }
                    let loaded_use = di > 0 && uline <= 2 && text.contains("load(");
                    if rng.chance(1, 3) || loaded_use {
                        o.sim_time += 1;
                        if loaded_use {
                            o.bump("probe.hover_or_completion_on_loaded_symbol", 1);
                        }
                        match cl.request(method, p) {
                            Err(e) => {
                                bail!("lsp-protocol", "protocol", "{method}: {e}");
                                break;
                            }
                            Ok(resp) => {
                                if let Some(res) = resp.result {
                                    check_ranges(&mut o, method, &res, &uri, &model, &docs);
                                }
                            }
                        }
                    }
                }
            }
            // The load statement itself: inside the module path and inside the symbol name.
            if let Some((ll, lt)) = lines.iter().enumerate().find(|(_, l)| l.starts_with("load(")) {
                let path_col = lt.find("d0").map(|i| lt[..i].chars().count() as u32 + 1).unwrap_or(7);
                let sym_col = lt.rfind('"').map(|i| lt[..i].chars().count() as u32 - 1).unwrap_or(18);
                let alias_col = lt.find(", ").map(|i| lt[..i].chars().count() as u32 + 2).unwrap_or(sym_col);
                for ch in [path_col, sym_col, alias_col, alias_col + 1] {
                    for method in ["textDocument/definition", "textDocument/hover", "textDocument/completion"] {
                        if o.violation.is_some() {
                            break;
                        }
                        o.sim_time += 1;
                        o.bump("probe.requests_inside_load_statement", 1);
                        match cl.request(method, json!({"textDocument": {"uri": uri}, "position": {"line": ll, "character": ch}})) {
                            Err(e) => bail!("lsp-protocol", "protocol", "{method} inside the load statement at {ll}:{ch}: {e}"),
                            Ok(resp) => {
                                if let Some(res) = resp.result {
                                    check_ranges(&mut o, &format!("{method} inside the load statement"), &res, &uri, &model, &docs);
                                }
                            }
                        }
                    }
                }
            }
            // Odd positions: past end of line, past end of file, inside a string, column 0 of every 3rd line.
            let nl = lines.len() as u64;
            for _ in 0..6 {
                if o.violation.is_some() {
                    break;
                }
                let line = rng.below(nl + 3);
                let ch = match rng.below(6) {
                    0 => 0,
                    1 | 2 => 100_000,
                    3 => 4_294_967_295,
                    _ => rng.below(60),
                };
                let line = if rng.chance(1, 12) { 4_294_967_295 } else { line };
                let method = *rng.pick(&["textDocument/definition", "textDocument/definition", "textDocument/hover", "textDocument/completion"]);
                o.sim_time += 1;
                o.bump("probe.requests_at_odd_positions", 1);
                match cl.request(method, json!({"textDocument": {"uri": uri}, "position": {"line": line, "character": ch}})) {
                    Err(e) => {
                        bail!("lsp-protocol", "protocol", "{method} at odd position {line}:{ch}: {e}");
                    }
                    Ok(resp) => {
                        if let Some(res) = resp.result {
                            check_ranges(&mut o, &format!("{method} at odd position {line}:{ch}"), &res, &uri, &model, &docs);
                            // A column beyond the end of the line means the end of that line (LSP):
                            // a definition answered there must be about the identifier that ends
                            // the line, never about text of another line.
                            if method == "textDocument/definition" && ch == 100_000 && (line as usize) < lines.len() {
                                let lt = lines[line as usize];
                                let trailing: String = lt.chars().rev().take_while(|c| c.is_alphanumeric() || *c == '_').collect::<String>().chars().rev().collect();
                                let links: Vec<Json> = match &res {
                                    Json::Array(a) => a.clone(),
                                    Json::Null => vec![],
                                    other => vec![other.clone()],
                                };
                                o.bump("probe.definition_requests_past_end_of_line", 1);
                                if let Some(l0) = links.first() {
                                    let origin = &l0["originSelectionRange"];
                                    let oline = origin["start"]["line"].as_u64();
                                    if trailing.is_empty() || oline.map(|x| x != line).unwrap_or(false) {
                                        o.violate(
                                            "definition-wrong",
                                            "definition-past-eol",
                                            format!("definition at {name}:{line}:{ch} (beyond the end of the line `{}`) answered {} - the line ends in `{trailing}`", kit::clip(lt), kit::clip(&l0.to_string())),
                                        );
                                    }
                                }
                            }
                        }
                    }
                }
            }
        }

        // History: change valid -> invalid -> valid, close, requests on closed / unknown documents, re-open.
        if o.violation.is_none() && !docs.is_empty() {
            let (name, text) = &docs[if disk_only { 1 } else { 0 }];
            let uri = uri_of(name);
            if case["invalid_interval"].as_bool().unwrap_or(false) {
                let broken = format!("{text}def broken(:\n    pass\n");
                // valid -> invalid -> the same valid text again (undo) -> invalid -> valid (edited) -> invalid -> undo
                for (t, label) in [(broken.clone(), "invalid"), (text.clone(), "undone"), (broken.clone(), "invalid"), (format!("{text}zz_added = 1\n"), "valid again"), (broken.clone(), "invalid"), (format!("{text}zz_added = 1\n"), "undone")] {
                    let _ = cl.notify("textDocument/didChange", json!({"textDocument": {"uri": uri, "version": version}, "contentChanges": [{"text": t}]}));
                    version += 1;
                    let last = if parses(&t) { Some(t.clone()) } else { model.get(&uri).and_then(|m| m.1.clone()) };
                    model.insert(uri.clone(), (Some(t.clone()), last));
                    o.sim_time += 1;
                    match cl.wait_diagnostics(&uri) {
                        Ok(d) => {
                            o.bump("probe.sessions_with_invalid_interval", if label == "invalid" { 1 } else { 0 });
                            if label == "invalid" && d["diagnostics"].as_array().map(|a| a.is_empty()).unwrap_or(true) {
                                bail!("diagnostics-missing", "diagnostics", "no diagnostic published for an unparsable document");
                            }
                            if label != "invalid" {
                                // A text that parses has no parse error left over from the previous version.
                                let stale = d["diagnostics"].as_array().map(|a| a.iter().any(|x| x["message"].as_str().map(|m| m.contains("Parse error")).unwrap_or(false))).unwrap_or(false);
                                if stale {
                                    bail!("diagnostics-stale", "diagnostics", "a document that parses again ({label}) still carries a parse error: {}", kit::clip(&d["diagnostics"].to_string()));
                                }
                            }
                            check_ranges(&mut o, &format!("diagnostics after change to {label}"), &d, &uri, &model, &docs);
                        }
                        Err(e) => bail!("lsp-protocol", "protocol", "{e}"),
                    }
                    // A definition request while invalid is answered from the last valid parse.
                    let r = cl.request("textDocument/definition", json!({"textDocument": {"uri": uri}, "position": {"line": 1, "character": 0}}));
                    match r {
                        Ok(resp) => {
                            if let Some(res) = resp.result {
                                check_ranges(&mut o, &format!("definition while {label}"), &res, &uri, &model, &docs);
                            }
                        }
                        Err(e) => bail!("lsp-protocol", "protocol", "{e}"),
                    }
                }
            }
            if o.violation.is_none() {
                let _ = cl.notify("textDocument/didClose", json!({"textDocument": {"uri": uri}}));
                model.insert(uri.clone(), (None, None));
                match cl.wait_diagnostics(&uri) {
                    Ok(d) => {
                        if !d["diagnostics"].as_array().map(|a| a.is_empty()).unwrap_or(true) {
                            bail!("diagnostics-after-close", "diagnostics", "diagnostics not cleared by didClose");
                        }
                    }
                    Err(e) => bail!("lsp-protocol", "protocol", "{e}"),
                }
                // Requests on a closed and on a never-opened document; double close.
                for target in [uri.clone(), uri_of("never_opened.star")] {
                    for method in ["textDocument/definition", "textDocument/hover", "textDocument/completion"] {
                        o.sim_time += 1;
                        o.bump("probe.requests_on_closed_or_unknown_documents", 1);
                        if let Err(e) = cl.request(method, json!({"textDocument": {"uri": target}, "position": {"line": 0, "character": 0}})) {
                            bail!("lsp-protocol", "protocol", "{method} on closed/unknown document: {e}");
                        }
                    }
                }
                let _ = cl.notify("textDocument/didClose", json!({"textDocument": {"uri": uri}}));
                let _ = cl.wait_diagnostics(&uri);
                if case["reopen"].as_bool().unwrap_or(false) {
                    let _ = cl.notify("textDocument/didOpen", json!({"textDocument": {"uri": uri, "languageId": "starlark", "version": version, "text": text}}));
                    model.insert(uri.clone(), (Some(text.clone()), if parses(text) { Some(text.clone()) } else { None }));
                    match cl.wait_diagnostics(&uri) {
                        Ok(d) => check_ranges(&mut o, "diagnostics after re-open", &d, &uri, &model, &docs),
                        Err(e) => bail!("lsp-protocol", "protocol", "{e}"),
                    }
                }
            }
        }

        // A document that never parsed: its diagnostics are published on open / change and must be
        // cleared by didClose like anybody else's.
        if o.violation.is_none() {
            let uri = uri_of("never_valid.star");
            let texts = ["def broken(:\n    pass\n", "x = (1,\ndef still_broken(:\n"];
            let _ = cl.notify("textDocument/didOpen", json!({"textDocument": {"uri": uri, "languageId": "starlark", "version": 1, "text": texts[0]}}));
            model.insert(uri.clone(), (Some(texts[0].to_owned()), None));
            o.sim_time += 1;
            match cl.wait_diagnostics(&uri) {
                Ok(d) => {
                    if d["diagnostics"].as_array().map(|a| a.is_empty()).unwrap_or(true) {
                        bail!("diagnostics-missing", "diagnostics", "no diagnostic published for an unparsable document on didOpen");
                    }
                    check_ranges(&mut o, "diagnostics of a never-valid document", &d, &uri, &model, &docs);
                }
                Err(e) => bail!("lsp-protocol", "protocol", "{e}"),
            }
            if rng.bool() && o.violation.is_none() {
                let _ = cl.notify("textDocument/didChange", json!({"textDocument": {"uri": uri, "version": 2}, "contentChanges": [{"text": texts[1]}]}));
                model.insert(uri.clone(), (Some(texts[1].to_owned()), None));
                match cl.wait_diagnostics(&uri) {
                    Ok(d) => check_ranges(&mut o, "diagnostics of a never-valid document after a change", &d, &uri, &model, &docs),
                    Err(e) => bail!("lsp-protocol", "protocol", "{e}"),
                }
            }
            if o.violation.is_none() {
                let _ = cl.notify("textDocument/didClose", json!({"textDocument": {"uri": uri}}));
                model.insert(uri.clone(), (None, None));
                o.bump("probe.never_valid_document_closed", 1);
                match cl.wait_diagnostics(&uri) {
                    Ok(d) => {
                        if !d["diagnostics"].as_array().map(|a| a.is_empty()).unwrap_or(true) {
                            bail!("diagnostics-after-close", "diagnostics", "diagnostics of a never-valid document not cleared by didClose");
                        }
                    }
                    Err(e) => bail!("diagnostics-after-close", "diagnostics", "didClose of a document that never parsed: {e}"),
                }
            }
        }

        // (4) Error spans of evaluating the same documents resolve to the line/character of the text.
        for (name, text) in &docs {
            let bad = format!("{text}zz_err = undefined_name_for_error\n");
            if let Ok(ast) = kit::parse(name, &bad) {
                let r = Module::with_temp_heap(|m| {
                    let mut e = Evaluator::new(&m);
                    e.eval_module(ast, kit::globals()).map(|_| ())
                });
                if let Err(e) = r {
                    if let Some(sp) = e.span() {
                        let rs = sp.resolve_span();
                        let src = sp.file.source();
                        let b = sp.span.begin().get() as usize;
                        let line = src[..b].matches('\n').count();
                        let line_start = src[..b].rfind('\n').map(|i| i + 1).unwrap_or(0);
                        let col = src[line_start..b].chars().count();
                        o.bump("probe.error_spans_checked", 1);
                        if rs.begin.line != line || rs.begin.column != col {
                            o.violate("error-position-wrong", "error-span", format!("{name}: error span resolves to {}:{} but the text is at {line}:{col}", rs.begin.line, rs.begin.column));
                        }
                    }
                }
            }
        }

        // shutdown / exit: the server terminates within a bounded number of messages.
        match cl.request("shutdown", Json::Null) {
            Ok(_) => {}
            Err(e) => {
                if o.violation.is_none() {
                    bail!("lsp-protocol", "protocol", "shutdown: {e}");
                }
            }
        }
        let _ = cl.notify("exit", Json::Null);
        let start = std::time::Instant::now();
        while !server.is_finished() && start.elapsed() < TIMEOUT {
            std::thread::sleep(Duration::from_millis(1));
        }
        if server.is_finished() {
            match server.join() {
                Ok(Ok(())) => {}
                Ok(Err(e)) => {
                    if o.violation.is_none() {
                        o.violate("server-failed", "server", e);
                    }
                }
                Err(_) => o.violate("server-failed", "server", "server thread panicked".to_owned()),
            }
        } else {
            o.violate("hang", "hang", "server did not terminate after shutdown/exit".to_owned());
        }
        if cl.hang && o.violation.is_none() {
            o.violate("hang", "hang", "a request was not answered".to_owned());
        }
        let f = fs.lock().unwrap();
        for (k, v) in &f.faults_fired {
            o.bump(&format!("fault.{k}"), *v);
        }
        o.bump("lsp_requests", cl.requests);
        log.push(format!("{:?}", o.stats));
        o.log_hash = kit::hash_lines(&log);
        o
    }

    fn shrink(&self, case: &Json) -> Vec<Json> {
        let mut out = Vec::new();
        let empty = Vec::new();
        let docs = case["docs"].as_array().unwrap_or(&empty);
        if docs.len() > 1 {
            // keep only a prefix of the documents (later documents load from d0)
            for k in 1..docs.len() {
                let mut c = case.clone();
                c["docs"] = json!(docs[..k].to_vec());
                out.push(c);
            }
        }
        for key in ["invalid_interval", "reopen"] {
            if case[key].as_bool().unwrap_or(false) {
                let mut c = case.clone();
                c[key] = json!(false);
                out.push(c);
            }
        }
        if case["fault"] != "none" {
            let mut c = case.clone();
            c["fault"] = json!("none");
            out.push(c);
        }
        // fewer uses
        for (di, d) in docs.iter().enumerate() {
            let uses = d["uses"].as_array().cloned().unwrap_or_default();
            if uses.len() > 1 {
                for u in &uses {
                    let mut c = case.clone();
                    c["docs"][di]["uses"] = json!([u]);
                    out.push(c);
                }
            }
        }
        out
    }
}
