//! C13 — frozen values stay alive as long as anything that can reach them is alive.
//!
//! A history over a growing graph of entities: build-and-freeze modules that load symbols from
//! existing frozen modules (direct, re-exported, inside containers, captured by functions),
//! clone frozen modules, take owned handles (get_owned / extra_value_owned / map to an inner
//! value), move handles into new modules with add_to_heap, build Globals from frozen values
//! (documented add_reference protocol) and modules against them, FrozenModule::from_globals —
//! and **drop any entity at any time, on any of k OS threads**. Every arena is poisoned when it
//! is dropped (quarantined in 2/3 of the runs, really re-used in 1/3), so a forgotten heap
//! reference turns into a deterministic failure. After every operation every value reachable
//! from every still-live entity is re-encoded and compared with what was recorded at creation.

use std::collections::BTreeMap;
use std::sync::Arc;
use std::sync::Mutex;
use std::sync::mpsc;

use serde_json::Value as Json;
use serde_json::json;
use starlark::environment::FrozenModule;
use starlark::environment::Globals;
use starlark::environment::GlobalsBuilder;
use starlark::environment::Module;
use starlark::eval::Evaluator;
use starlark::values::OwnedFrozen;
use starlark::values::Value;
use starlark::verif_hooks;

use crate::core::*;
use crate::genprog::Features;
use crate::genprog::Kind;
use crate::genprog::gen_module;
use crate::kit;
use crate::rng::Rng;
use crate::rng::fnv;

type OwnedFrozenValue = OwnedFrozen<Value<'static>>;

pub struct C13;

enum Entity {
    Frozen { fm: FrozenModule, recorded: Vec<String> },
    Handle { h: OwnedFrozenValue, recorded: String },
    Globals { g: Globals, recorded: Vec<String> },
}

#[derive(Default)]
struct State {
    entities: Vec<Option<Entity>>,
    /// Name under which a frozen module entity can be loaded.
    problems: Vec<String>,
    stats: BTreeMap<String, u64>,
}

fn bump(st: &mut State, k: &str) {
    *st.stats.entry(k.to_owned()).or_insert(0) += 1;
}

/// Encode a value and, if it is callable, also what calling it with one argument gives.
fn observe_value<'v>(name: &str, v: Value<'v>, eval: &mut Evaluator<'v, '_, '_>) -> String {
    let mut s = format!("{name} = {}", kit::encode(v));
    let ty = v.get_type();
    if ty == "function" {
        let heap = eval.heap();
        let r = eval.eval_function(v, &[heap.alloc(3)], &[]);
        match r {
            Ok(x) => s += &format!(" ; call(3) -> {}", kit::encode(x)),
            Err(e) => s += &format!(" ; call(3) !! [{}] {}", kit::error_kind(&e), kit::clip(&format!("{}", e.without_diagnostic()))),
        }
    }
    s
}

fn observe_frozen(fm: &FrozenModule) -> Vec<String> {
    let mut out = Vec::new();
    let mut names: Vec<String> = fm.names().map(|n| n.as_str().to_owned()).collect();
    names.sort();
    Module::with_temp_heap(|m| {
        let mut eval = Evaluator::new(&m);
        for n in &names {
            if let Ok(v) = fm.get_owned(n) {
                let v = v.add_to_heap(m.heap());
                out.push(observe_value(n, v, &mut eval));
            }
        }
        if let Some(x) = fm.extra_value_owned() {
            let v = x.add_to_heap(m.heap());
            out.push(observe_value("<extra>", v, &mut eval));
        }
    });
    out
}

fn observe_handle(h: &OwnedFrozenValue) -> String {
    let mut out = String::new();
    Module::with_temp_heap(|m| {
        let mut eval = Evaluator::new(&m);
        let v = h.dupe_value().add_to_heap(m.heap());
        out = observe_value("<handle>", v, &mut eval);
    });
    out
}

trait DupeValue {
    fn dupe_value(&self) -> OwnedFrozenValue;
}
impl DupeValue for OwnedFrozenValue {
    fn dupe_value(&self) -> OwnedFrozenValue {
        self.clone()
    }
}

fn observe_globals(g: &Globals) -> Vec<String> {
    let mut out = Vec::new();
    let names: Vec<String> = {
        let mut n: Vec<String> = g.names().map(|s| s.as_str().to_owned()).collect();
        n.sort();
        n
    };
    // Evaluate a module against these globals which emits every name.
    let text: String = names.iter().map(|n| format!("emit({n})\n")).collect();
    kit::ctx_reset();
    // `emit` itself is not in these globals: read the values through the host API instead.
    let _ = text;
    for (n, v) in g.iter() {
        out.push(format!("{n} = {}", kit::encode(v.to_value())));
    }
    out.sort();
    out
}

fn check_all(st: &mut State, after: &str) {
    let mut problems = Vec::new();
    let mut n = 0;
    for (i, e) in st.entities.iter().enumerate() {
        match e {
            None => {}
            Some(Entity::Frozen { fm, recorded }) => {
                let now = observe_frozen(fm);
                n += now.len();
                if let Some(d) = kit::diff_transcripts(recorded, &now) {
                    problems.push(format!("after {after}: frozen module #{i}: {d}"));
                }
            }
            Some(Entity::Handle { h, recorded }) => {
                let now = observe_handle(h);
                n += 1;
                if &now != recorded {
                    problems.push(format!("after {after}: handle #{i}: recorded `{}` now `{}`", kit::clip(recorded), kit::clip(&now)));
                }
            }
            Some(Entity::Globals { g, recorded }) => {
                let now = observe_globals(g);
                n += now.len();
                if let Some(d) = kit::diff_transcripts(recorded, &now) {
                    problems.push(format!("after {after}: globals #{i}: {d}"));
                }
            }
        }
    }
    *st.stats.entry("values_reencoded".to_owned()).or_insert(0) += n as u64;
    st.problems.extend(problems);
}

fn frozen_at(st: &State, i: usize) -> Option<FrozenModule> {
    match st.entities.get(i) {
        Some(Some(Entity::Frozen { fm, .. })) => Some(fm.clone()),
        _ => None,
    }
}

fn perform(st: &mut State, op: &Json, idx: usize) {
    let kind = op["op"].as_str().unwrap_or("");
    match kind {
        "build" => {
            let deps: Vec<usize> = op["deps"].as_array().map(|a| a.iter().filter_map(|x| x.as_u64().map(|x| x as usize)).collect()).unwrap_or_default();
            let mut modules = BTreeMap::new();
            for d in &deps {
                if let Some(fm) = frozen_at(st, *d) {
                    modules.insert(format!("e{d}"), fm);
                }
            }
            let loader = kit::MapLoader { modules };
            let stmts: Vec<String> = op["stmts"].as_array().map(|a| a.iter().filter_map(|x| x.as_str().map(|s| s.to_owned())).collect()).unwrap_or_default();
            // Drop load statements whose module is gone (robustness under shrinking).
            let stmts: Vec<String> = stmts
                .into_iter()
                .filter(|s| {
                    if let Some(rest) = s.strip_prefix("load(\"") {
                        let m = rest.split('"').next().unwrap_or("");
                        loader.modules.contains_key(m)
                    } else {
                        true
                    }
                })
                .collect();
            let text = stmts.join("\n") + "\n";
            kit::ctx_reset();
            let mut build_err: Option<String> = None;
            let fm = Module::with_temp_heap(|module| {
                {
                    let mut eval = Evaluator::new(&module);
                    eval.set_loader(&loader);
                    if let Ok(ast) = kit::parse(&format!("m{idx}.star"), &text) {
                        // Errors are fine: whatever was bound before the failure is exported.
                        if let Err(e) = eval.eval_module(ast, kit::globals()) {
                            build_err = Some(format!("{}", e.without_diagnostic()));
                        }
                    }
                    if op["extra"].as_bool().unwrap_or(false) {
                        if let Some(v) = module.names().next().and_then(|n| module.get(n.as_str())) {
                            module.set_extra_value(v);
                        }
                    }
                }
                // Heaps may be named; different heaps can legitimately carry equal names
                // (e.g. a file evaluated again).
                match op["heap_name"].as_str() {
                    // A heap named with the embedder-facing `singleton_heap_name!()`: one name per
                    // call site, so all such heaps of this world share it, and each is an ordinary
                    // heap which can be dropped.
                    Some("@singleton") => module.freeze_named(starlark::values::FrozenHeapName::Singleton(starlark::singleton_heap_name!())),
                    Some(n) => module.freeze_named(starlark::values::FrozenHeapName::user(n)),
                    None => module.freeze(),
                }
            });
            if op["heap_name"].as_str() == Some("@singleton") {
                bump(st, "probe.modules_on_singleton_named_heaps");
            }
            drop(loader);
            bump(st, "modules_built");
            if let Some(e) = &build_err {
                bump(st, "modules_whose_evaluation_ended_in_error");
                if std::env::var_os("VERIF_DEBUG_OBS").is_some() {
                    let k: String = format!("err.{}", e.lines().next().unwrap_or("").chars().take(120).collect::<String>());
                    *st.stats.entry(k).or_insert(0) += 1;
                }
            }
            match fm {
                Ok(fm) => {
                    let recorded = observe_frozen(&fm);
                    if !deps.is_empty() {
                        bump(st, "probe.modules_with_dependencies");
                    }
                    if op["reexport_only"].as_bool().unwrap_or(false) {
                        bump(st, "probe.reexport_only_modules");
                    }
                    st.entities.push(Some(Entity::Frozen { fm, recorded }));
                }
                Err(_) => st.entities.push(None),
            }
        }
        "clone" => {
            let t = op["target"].as_u64().unwrap_or(0) as usize;
            match st.entities.get(t) {
                Some(Some(Entity::Frozen { fm, recorded })) => {
                    let e = Entity::Frozen { fm: fm.clone(), recorded: recorded.clone() };
                    st.entities.push(Some(e));
                }
                Some(Some(Entity::Handle { h, recorded })) => {
                    let e = Entity::Handle { h: h.clone(), recorded: recorded.clone() };
                    bump(st, "probe.handles_cloned");
                    st.entities.push(Some(e));
                }
                Some(Some(Entity::Globals { g, recorded })) => {
                    let e = Entity::Globals { g: g.clone(), recorded: recorded.clone() };
                    st.entities.push(Some(e));
                }
                _ => st.entities.push(None),
            }
        }
        "handle" => {
            let t = op["target"].as_u64().unwrap_or(0) as usize;
            let k = op["name"].as_u64().unwrap_or(0) as usize;
            let mut new = None;
            if let Some(fm) = frozen_at(st, t) {
                let mut names: Vec<String> = fm.names().map(|n| n.as_str().to_owned()).collect();
                names.sort();
                if op["extra"].as_bool().unwrap_or(false) {
                    if let Some(h) = fm.extra_value_owned() {
                        new = Some(h);
                    }
                }
                if new.is_none() && !names.is_empty() {
                    if let Ok(h) = fm.get_owned(&names[k % names.len()]) {
                        new = Some(h);
                    }
                }
            }
            match new {
                Some(h) => {
                    // Optionally narrow the handle to an inner element.
                    let h = if op["map"].as_bool().unwrap_or(false) {
                        // Three ways of narrowing a handle: maybe_map, map, try_map.
                        let h2 = match op["map_kind"].as_u64().unwrap_or(0) % 3 {
                            0 => h.clone().maybe_map::<Value<'static>, _>(first_element),
                            1 => Some(h.clone().map::<Value<'static>, _>(first_or_self)),
                            _ => h.clone().try_map::<Value<'static>, (), _>(first_or_err).ok(),
                        };
                        match h2 {
                            Some(x) => {
                                bump(st, "probe.handles_mapped_to_inner_value");
                                x
                            }
                            None => h,
                        }
                    } else {
                        h
                    };
                    let recorded = observe_handle(&h);
                    st.entities.push(Some(Entity::Handle { h, recorded }));
                }
                None => st.entities.push(None),
            }
        }
        "add_to_heap" => {
            let t = op["target"].as_u64().unwrap_or(0) as usize;
            let h = match st.entities.get(t) {
                Some(Some(Entity::Handle { h, .. })) => Some(h.clone()),
                _ => None,
            };
            match h {
                None => st.entities.push(None),
                Some(h) => {
                    let fm = Module::with_temp_heap(|module| {
                        let v = h.add_to_heap(module.heap());
                        module.set("moved", v);
                        {
                            let mut eval = Evaluator::new(&module);
                            if let Ok(ast) = kit::parse(&format!("m{idx}.star"), "wrapped = [moved, {\"k\": moved}]\ndef get_moved(x):\n    return [moved, x]\n") {
                                let _ = eval.eval_module(ast, kit::globals());
                            }
                        }
                        module.freeze()
                    });
                    match fm {
                        Ok(fm) => {
                            let recorded = observe_frozen(&fm);
                            bump(st, "probe.handles_moved_into_new_heap");
                            st.entities.push(Some(Entity::Frozen { fm, recorded }));
                        }
                        Err(_) => st.entities.push(None),
                    }
                }
            }
        }
        "import_public" => {
            let t = op["target"].as_u64().unwrap_or(0) as usize;
            let k = op["name"].as_u64().unwrap_or(0) as usize;
            match frozen_at(st, t) {
                None => st.entities.push(None),
                Some(src) => {
                    let mut names: Vec<String> = src.names().map(|n| n.as_str().to_owned()).filter(|n| !n.starts_with('_')).collect();
                    names.sort();
                    let fm = Module::with_temp_heap(|module| {
                        module.import_public_symbols(&src);
                        if !names.is_empty() {
                            let n = &names[k % names.len()];
                            let text = format!("held = [{n}, {{\"k\": {n}}}]\ndef geti(x):\n    return [{n}, x]\n");
                            let mut eval = Evaluator::new(&module);
                            if let Ok(ast) = kit::parse(&format!("m{idx}.star"), &text) {
                                let _ = eval.eval_module(ast, kit::globals());
                            }
                        }
                        module.freeze()
                    });
                    drop(src);
                    match fm {
                        Ok(fm) => {
                            let recorded = observe_frozen(&fm);
                            bump(st, "probe.import_public_symbols");
                            st.entities.push(Some(Entity::Frozen { fm, recorded }));
                        }
                        Err(_) => st.entities.push(None),
                    }
                }
            }
        }
        "globals" => {
            // Build Globals from handles, following the documented add_reference protocol;
            // optionally through a heap that only groups other heaps (it allocates nothing), with
            // one-character names (static strings: the globals' own heap allocates nothing either).
            let ts: Vec<usize> = op["targets"].as_array().map(|a| a.iter().filter_map(|x| x.as_u64().map(|x| x as usize)).collect()).unwrap_or_default();
            let via_group = op["via_group"].as_bool().unwrap_or(false);
            let short = op["short_names"].as_bool().unwrap_or(false);
            let mut gb = GlobalsBuilder::new();
            let group = starlark::values::FrozenHeap::new();
            let mut n = 0;
            for t in ts {
                if let Some(Some(Entity::Handle { h, .. })) = st.entities.get(t) {
                    if via_group {
                        group.add_reference(h.owner());
                    } else {
                        gb.frozen_heap().add_reference(h.owner());
                    }
                    let fv = h.as_ref().value().unpack_frozen();
                    if let Some(fv) = fv {
                        if short {
                            gb.set(&((b'a' + (n % 20) as u8) as char).to_string(), fv);
                        } else {
                            gb.set(&format!("g{n}"), fv);
                        }
                        n += 1;
                    }
                }
            }
            if via_group {
                let group = match op["group_name"].as_str() {
                    Some(nm) => group.into_ref_named(starlark::values::FrozenHeapName::user(nm)),
                    None => group.into_ref(),
                };
                gb.frozen_heap().add_reference(&group);
                drop(group);
                bump(st, "probe.globals_through_reference_only_heap");
            }
            if op["marker"].as_bool().unwrap_or(true) {
                gb.set(if short { "m" } else { "marker" }, 7);
            }
            // Values allocated on the Globals' own heap (what a FrozenModule::from_globals exports).
            if op["own"].as_bool().unwrap_or(false) {
            gb.set("gown", format!("globals-own-string-{idx}-{}", "x".repeat(40 + idx % 30)));
            gb.set("gownl", vec![format!("globals-own-item-{idx}"), "y".repeat(33)]);
                bump(st, "probe.globals_with_values_on_their_own_heap");
            }
            let g = gb.build();
            let recorded = observe_globals(&g);
            bump(st, "probe.globals_built_from_frozen_values");
            st.entities.push(Some(Entity::Globals { g, recorded }));
        }
        "regroup" => {
            // Re-home a handle under a fresh heap which allocates nothing and only references the
            // handle's owner.
            let t = op["target"].as_u64().unwrap_or(0) as usize;
            let h = match st.entities.get(t) {
                Some(Some(Entity::Handle { h, .. })) => Some(h.clone()),
                _ => None,
            };
            match h.and_then(|h| h.as_ref().value().unpack_frozen().map(|_| h)) {
                None => st.entities.push(None),
                Some(h) => {
                    let name = match op["heap_name"].as_str() {
                        Some(n) => starlark::values::FrozenHeapName::user(n),
                        None => starlark::values::FrozenHeapName::user("group"),
                    };
                    let h2: OwnedFrozenValue = OwnedFrozen::build(name, |heap| h.as_ref().add_to_frozen_heap(heap).unpack_frozen().unwrap().to_value());
                    drop(h);
                    let recorded = observe_handle(&h2);
                    bump(st, "probe.handle_rehomed_on_reference_only_heap");
                    st.entities.push(Some(Entity::Handle { h: h2, recorded }));
                }
            }
        }
        "module_on_globals" => {
            let t = op["target"].as_u64().unwrap_or(0) as usize;
            let g = match st.entities.get(t) {
                Some(Some(Entity::Globals { g, .. })) => Some(g.clone()),
                _ => None,
            };
            match g {
                None => st.entities.push(None),
                Some(g) => {
                    let names: Vec<String> = g.names().map(|s| s.as_str().to_owned()).collect();
                    let text = format!("held = [{}]\ndef getg(x):\n    return [x, {}]\n", names.join(", "), names.first().cloned().unwrap_or("None".to_owned()));
                    let fm = Module::with_temp_heap(|module| {
                        {
                            let mut eval = Evaluator::new(&module);
                            if let Ok(ast) = kit::parse(&format!("m{idx}.star"), &text) {
                                let _ = eval.eval_module(ast, &g);
                            }
                        }
                        module.freeze()
                    });
                    drop(g);
                    match fm {
                        Ok(fm) => {
                            let recorded = observe_frozen(&fm);
                            st.entities.push(Some(Entity::Frozen { fm, recorded }));
                        }
                        Err(_) => st.entities.push(None),
                    }
                }
            }
        }
        "from_globals" => {
            let t = op["target"].as_u64().unwrap_or(0) as usize;
            let g = match st.entities.get(t) {
                Some(Some(Entity::Globals { g, .. })) => Some(g.clone()),
                _ => None,
            };
            match g.and_then(|g| FrozenModule::from_globals(&g).ok()) {
                Some(fm) => {
                    let recorded = observe_frozen(&fm);
                    bump(st, "probe.module_from_globals");
                    st.entities.push(Some(Entity::Frozen { fm, recorded }));
                }
                None => st.entities.push(None),
            }
        }
        "freeze_and_hold" => {
            // A value of a frozen source module is brought into an unfrozen heap (load() or
            // add_to_heap); the host keeps the `Value<'v>`; the module is frozen and the frozen
            // module as well as the source are dropped while the unfrozen heap is still alive: the
            // value the host holds must stay intact for as long as that heap exists.
            let via_load = op["via_load"].as_bool().unwrap_or(true);
            let n = 200 + (op["size"].as_u64().unwrap_or(0) % 2000);
            let tag = op["tag"].as_u64().unwrap_or(0);
            let src_text = format!("big = [\"src{tag}-%d\" % i for i in range({n})]\nnum = (1 << 70) + {tag}\ndef getbig():\n    return [big[0], num]\n");
            let expect_fn = |m: &Module| -> Vec<String> {
                let mut out = Vec::new();
                let mut eval = Evaluator::new(m);
                for nm in ["hbig", "hnum", "hget"] {
                    if let Some(v) = m.get(nm) {
                        out.push(observe_value(nm, v, &mut eval));
                    }
                }
                out
            };
            let mut problem = None;
            Module::with_temp_heap(|module| {
                let src = Module::with_temp_heap(|sm| {
                    {
                        let mut e = Evaluator::new(&sm);
                        if let Ok(ast) = kit::parse("src.star", &src_text) {
                            let _ = e.eval_module(ast, kit::globals());
                        }
                    }
                    sm.freeze()
                });
                let Ok(src) = src else { return };
                if via_load {
                    let loader = kit::MapLoader { modules: [("src".to_owned(), src.clone())].into_iter().collect() };
                    let mut eval = Evaluator::new(&module);
                    eval.set_loader(&loader);
                    if let Ok(ast) = kit::parse(&format!("m{idx}.star"), "load(\"src\", hbig = \"big\", hnum = \"num\", hget = \"getbig\")\nkeep = [hbig, hnum, hget]\n") {
                        let _ = eval.eval_module(ast, kit::globals());
                    }
                } else {
                    for (nm, to) in [("big", "hbig"), ("num", "hnum"), ("getbig", "hget")] {
                        if let Ok(h) = src.get_owned(nm) {
                            let v = h.add_to_heap(module.heap());
                            module.set(to, v);
                        }
                    }
                }
                let held: Vec<Value> = ["hbig", "hnum", "hget"].iter().filter_map(|n| module.get(n)).collect();
                let before = expect_fn(&module);
                drop(src);
                // Freeze a second module view? No: freeze this very module; its unfrozen heap lives
                // until the closure returns.
                let heap = module.heap();
                let frozen = module.freeze();
                drop(frozen);
                // Churn: similar heaps, so that freed memory is really reused (when not quarantined).
                let mut churn = Vec::new();
                for c in 0..4 {
                    churn.push(Module::with_temp_heap(|cm| {
                        {
                            let mut e = Evaluator::new(&cm);
                            if let Ok(ast) = kit::parse("churn.star", &src_text.replace("src", &format!("chu{c}"))) {
                                let _ = e.eval_module(ast, kit::globals());
                            }
                        }
                        cm.freeze()
                    }));
                }
                // What the host still holds.
                let mut after = Vec::new();
                Module::with_temp_heap(|om| {
                    let mut eval = Evaluator::new(&om);
                    for (nm, v) in ["hbig", "hnum", "hget"].iter().zip(held.iter()) {
                        // The values live on `heap` (still alive); observe them from a fresh evaluator.
                        let _ = heap;
                        let v2: Value = unsafe { std::mem::transmute::<Value, Value>(*v) };
                        after.push(observe_value(nm, v2, &mut eval));
                    }
                });
                drop(churn);
                if after != before {
                    problem = Some(format!("values held by the host across freeze changed: {:?}", kit::diff_transcripts(&before, &after)));
                }
            });
            if let Some(p) = problem {
                st.problems.push(format!("op {idx} freeze_and_hold: {p}"));
            }
            bump(st, "probe.values_held_across_freeze");
            st.entities.push(None);
        }
        "drop" => {
            let t = op["target"].as_u64().unwrap_or(0) as usize;
            if let Some(slot) = st.entities.get_mut(t) {
                if slot.is_some() {
                    *slot = None;
                    bump(st, "fault.entity_dropped");
                }
            }
            st.entities.push(None);
        }
        _ => st.entities.push(None),
    }
}

fn first_element(v: Value<'_>) -> Option<Value<'_>> {
    // Inner value of a list / tuple / dict (first element or first value).
    let mut it = None;
    if let Ok(n) = v.length() {
        if n > 0 && (v.get_type() == "list" || v.get_type() == "tuple") {
            starlark::values::Heap::temp(|_h| ());
            it = index0(v);
        }
    }
    it
}

fn first_or_self(v: Value<'_>) -> Value<'_> {
    first_element(v).unwrap_or(v)
}

fn first_or_err(v: Value<'_>) -> Result<Value<'_>, ()> {
    first_element(v).ok_or(())
}

fn index0(v: Value<'_>) -> Option<Value<'_>> {
    use starlark::values::list::ListRef;
    use starlark::values::tuple::TupleRef;
    if let Some(l) = ListRef::from_value(v) {
        return l.content().first().copied();
    }
    if let Some(t) = TupleRef::from_value(v) {
        return t.content().first().copied();
    }
    None
}

impl World for C13 {
    fn id(&self) -> &'static str {
        "C13"
    }

    fn describe(&self) -> Describe {
        Describe {
            level: "exploration",
            rule: "case = seeded history of <= 40 operations {build-and-freeze a generated module loading from live frozen modules, clone, get_owned / extra_value_owned handle (optionally mapped to an inner value), add_to_heap into a new module, Globals from handles (+add_reference), module evaluated on such Globals, FrozenModule::from_globals, drop of any entity} each placed on one of 1-4 OS threads, with every dropped arena poisoned (quarantined or really re-used); after every operation all values reachable from all live entities are re-encoded (and exported functions re-called) and compared with the encoding recorded at creation; non-trivial = at least one drop happened while another live entity depended on other heaps; distinct = digest of the operation list",
            sim_time_unit: "graph operations performed",
            real_components: vec!["FrozenHeap/FrozenHeapRef reference graph", "Module::freeze / load_symbol / import", "OwnedFrozen (get_owned, map, add_to_heap)", "Globals/GlobalsBuilder", "FrozenModule::from_globals", "chunk allocator + per-thread chunk cache", "evaluator (re-calling exported functions)"],
            stub_components: vec!["file loader (map of live frozen modules)", "thread placement of each operation (seeded)"],
            assumptions: vec!["only safe, documented API is used, so every value the harness still holds is legitimately alive", "poisoned memory makes a stale read fail or differ"],
            exhaustive: false,
        }
    }

    fn budget(&self, tier: Tier) -> Budget {
        match tier {
            Tier::Quick => Budget { runs: 1200, wall_s: 120, block: 60, recheck: 24, hang_s: 120 },
            Tier::Thorough => Budget { runs: 150_000, wall_s: 1500, block: 150, recheck: 100, hang_s: 120 },
        }
    }

    fn init_process(&self) {
        verif_hooks::set_poison(true);
    }

    fn generate(&self, seed: u64, index: u64, _tier: Tier) -> Json {
        let root = Rng::new(run_seed(seed, "C13", index));
        let mut wl = root.fork("workload");
        let mut sch = root.fork("schedule");
        let mut env = root.fork("env");
        let threads = 1 + sch.usize(4);
        let nops = 6 + wl.usize(30);
        // Generator-side view of the entity table: kind and exports.
        #[derive(Clone)]
        enum G {
            Dead,
            Frozen(Vec<(String, Kind)>),
            Handle,
            Globals(bool),
        }
        let mut ents: Vec<G> = Vec::new();
        let mut ops: Vec<Json> = Vec::new();
        let live_of = |ents: &Vec<G>, want: u8| -> Vec<usize> {
            ents.iter()
                .enumerate()
                .filter(|(_, e)| match (e, want) {
                    (G::Frozen(_), 0) => true,
                    (G::Handle, 1) => true,
                    (G::Globals(_), 2) => true,
                    _ => false,
                })
                .map(|(i, _)| i)
                .collect()
        };
        for _ in 0..nops {
            let idx = ents.len();
            let thread = sch.usize(threads);
            let frozen = live_of(&ents, 0);
            let handles = live_of(&ents, 1);
            let globals = live_of(&ents, 2);
            let r = wl.below(100);
            if frozen.is_empty() || r < 28 {
                // build
                let mut deps: Vec<usize> = Vec::new();
                if !frozen.is_empty() {
                    let nd = wl.usize(3.min(frozen.len()) + 1);
                    for _ in 0..nd {
                        let d = frozen[wl.usize(frozen.len())];
                        if !deps.contains(&d) {
                            deps.push(d);
                        }
                    }
                }
                let mut loaded: Vec<(String, Vec<(String, Kind)>)> = Vec::new();
                // One module in six imports scalars only (ints - big ones live on the heap -, which
                // are easily mistaken for values that need no owner).
                let scalars_only = wl.chance(1, 6);
                for d in &deps {
                    if let G::Frozen(ex) = &ents[*d] {
                        let ints: Vec<(String, Kind)> = ex.iter().filter(|(_, k)| *k == Kind::Int).cloned().collect();
                        if scalars_only && !ints.is_empty() {
                            loaded.push((format!("e{d}"), ints.into_iter().take(3).collect()));
                            continue;
                        }
                        let mut pick: Vec<(String, Kind)> = Vec::new();
                        let n = 1 + wl.usize(3);
                        for _ in 0..n {
                            if !ex.is_empty() {
                                let e = ex[wl.usize(ex.len())].clone();
                                if !pick.iter().any(|(p, _)| *p == e.0) {
                                    pick.push(e);
                                }
                            }
                        }
                        loaded.push((format!("e{d}"), pick));
                    }
                }
                let mut feat = Features::draw(&mut wl);
                feat.host = false;
                feat.emit_rate = 5;
                // One module in six only re-exports what it loads: its own heap allocates nothing.
                let reexport_only = !loaded.is_empty() && loaded.iter().any(|(_, p)| !p.is_empty()) && wl.chance(1, 6);
                let n = 3 + wl.usize(12);
                let (stmts, exports) = if reexport_only {
                    let mut stmts = Vec::new();
                    let mut exports = Vec::new();
                    for (m, pick) in &loaded {
                        for (j, (name, kind)) in pick.iter().enumerate() {
                            stmts.push(format!("load(\"{m}\", rx{idx}_{m}_{j} = \"{name}\")"));
                            stmts.push(format!("m{idx}_{m}_r{j} = rx{idx}_{m}_{j}"));
                            exports.push((format!("m{idx}_{m}_r{j}"), *kind));
                        }
                    }
                    (stmts, exports)
                } else {
                    gen_module(&mut wl, feat, &format!("m{idx}_"), n, &loaded, false)
                };
                // Exporter modules do not need observations.
                let stmts: Vec<String> = stmts.into_iter().filter(|s| !s.starts_with("emit(")).collect();
                let heap_name = match wl.below(5) {
                    0 => json!("lib.star"),
                    1 => json!(format!("pkg{}.star", wl.below(2))),
                    2 => json!("@singleton"),
                    _ => Json::Null,
                };
                ops.push(json!({"op": "build", "thread": thread, "deps": deps, "stmts": stmts, "extra": wl.chance(1, 3), "heap_name": heap_name, "reexport_only": reexport_only}));
                ents.push(G::Frozen(exports));
            } else if r < 32 {
                let t = frozen[wl.usize(frozen.len())];
                ops.push(json!({"op": "import_public", "thread": thread, "target": t, "name": wl.below(64)}));
                ents.push(G::Frozen(vec![("held".to_owned(), Kind::List), ("geti".to_owned(), Kind::Func1)]));
            } else if r < 36 {
                // a clone of a frozen module, of a handle or of globals (dropped independently later)
                let mut cands = frozen.clone();
                cands.extend(handles.iter().copied());
                cands.extend(globals.iter().copied());
                let t = cands[wl.usize(cands.len())];
                ops.push(json!({"op": "clone", "thread": thread, "target": t}));
                ents.push(ents[t].clone());
            } else if r < 52 {
                let t = frozen[wl.usize(frozen.len())];
                ops.push(json!({"op": "handle", "thread": thread, "target": t, "name": wl.below(64), "map": wl.chance(1, 3), "map_kind": wl.below(3), "extra": wl.chance(1, 6)}));
                ents.push(G::Handle);
            } else if r < 59 && !handles.is_empty() {
                let t = handles[wl.usize(handles.len())];
                ops.push(json!({"op": "add_to_heap", "thread": thread, "target": t}));
                ents.push(G::Frozen(vec![("moved".to_owned(), Kind::Other), ("wrapped".to_owned(), Kind::List), ("get_moved".to_owned(), Kind::Func1)]));
            } else if r < 63 && !handles.is_empty() {
                let t = handles[wl.usize(handles.len())];
                let heap_name = if wl.bool() { json!("group") } else { json!(format!("pkg{}.star", wl.below(2))) };
                ops.push(json!({"op": "regroup", "thread": thread, "target": t, "heap_name": heap_name}));
                ents.push(G::Handle);
            } else if r < 68 && !handles.is_empty() {
                let n = 1 + wl.usize(3);
                let ts: Vec<usize> = (0..n).map(|_| handles[wl.usize(handles.len())]).collect();
                let group_name = if wl.bool() { json!("group") } else { Json::Null };
                let own = wl.chance(1, 2);
                ops.push(json!({"op": "globals", "thread": thread, "targets": ts, "via_group": wl.chance(1, 3), "short_names": wl.chance(1, 2), "marker": wl.chance(2, 3), "group_name": group_name, "own": own}));
                ents.push(G::Globals(own));
            } else if r >= 97 {
                ops.push(json!({"op": "freeze_and_hold", "thread": thread, "via_load": wl.bool(), "size": wl.below(2000), "tag": wl.below(1000)}));
                ents.push(G::Dead);
            } else if r < 74 && !globals.is_empty() {
                let t = globals[wl.usize(globals.len())];
                if wl.bool() {
                    ops.push(json!({"op": "module_on_globals", "thread": thread, "target": t}));
                    ents.push(G::Frozen(vec![("held".to_owned(), Kind::List), ("getg".to_owned(), Kind::Func1)]));
                } else {
                    ops.push(json!({"op": "from_globals", "thread": thread, "target": t}));
                    if matches!(ents[t], G::Globals(true)) {
                        ents.push(G::Frozen(vec![("gown".to_owned(), Kind::Str), ("gownl".to_owned(), Kind::List)]));
                    } else {
                        ents.push(G::Frozen(vec![("marker".to_owned(), Kind::Int)]));
                    }
                }
            } else {
                // drop something alive
                let alive: Vec<usize> = ents.iter().enumerate().filter(|(_, e)| !matches!(e, G::Dead)).map(|(i, _)| i).collect();
                if alive.is_empty() {
                    ops.push(json!({"op": "nop", "thread": thread}));
                    ents.push(G::Dead);
                } else {
                    // Bias: drop older entities first half of the time (dependencies before dependents).
                    let t = if wl.bool() { alive[wl.usize(alive.len().div_ceil(2))] } else { alive[wl.usize(alive.len())] };
                    ops.push(json!({"op": "drop", "thread": thread, "target": t}));
                    ents[t] = G::Dead;
                    ents.push(G::Dead);
                }
            }
        }
        // Final teardown in seeded order.
        let mut alive: Vec<usize> = ents.iter().enumerate().filter(|(_, e)| !matches!(e, G::Dead)).map(|(i, _)| i).collect();
        sch.shuffle(&mut alive);
        for t in alive {
            ops.push(json!({"op": "drop", "thread": sch.usize(threads), "target": t}));
        }
        json!({"threads": threads, "quarantine": env.chance(2, 3), "check_thread": sch.usize(threads), "ops": ops})
    }

    fn execute(&self, case: &Json) -> Outcome {
        let mut o = Outcome::default();
        o.digest = fnv(case["ops"].to_string().as_bytes());
        verif_hooks::set_poison(true);
        verif_hooks::set_quarantine(case["quarantine"].as_bool().unwrap_or(true));
        let threads = case["threads"].as_u64().unwrap_or(1).max(1) as usize;
        let empty = Vec::new();
        let ops = case["ops"].as_array().unwrap_or(&empty).clone();
        let check_thread = case["check_thread"].as_u64().unwrap_or(0) as usize % threads;
        let state = Arc::new(Mutex::new(State::default()));
        // k real OS threads; one operation at a time, run to completion, on the chosen thread.
        let mut txs = Vec::new();
        let (done_tx, done_rx) = mpsc::channel::<Result<(), String>>();
        let mut joins = Vec::new();
        for _ in 0..threads {
            let (tx, rx) = mpsc::channel::<Option<(Json, usize, bool)>>();
            txs.push(tx);
            let state = state.clone();
            let done_tx = done_tx.clone();
            joins.push(
                std::thread::Builder::new()
                    .stack_size(64 << 20)
                    .spawn(move || {
                        while let Ok(Some((op, idx, check))) = rx.recv() {
                            let r = std::panic::catch_unwind(std::panic::AssertUnwindSafe(|| {
                                let mut st = state.lock().unwrap_or_else(|e| e.into_inner());
                                if check {
                                    check_all(&mut st, &format!("op {idx} ({})", op["op"].as_str().unwrap_or("")));
                                } else {
                                    perform(&mut st, &op, idx);
                                }
                            }));
                            let msg = match r {
                                Ok(()) => Ok(()),
                                Err(_) => Err(take_last_panic().unwrap_or_else(|| "panic".to_owned())),
                            };
                            if done_tx.send(msg).is_err() {
                                break;
                            }
                        }
                    })
                    .expect("spawn"),
            );
        }
        let mut panic_msg = None;
        let mut created_on: Vec<usize> = Vec::new();
        for (i, op) in ops.iter().enumerate() {
            let t = op["thread"].as_u64().unwrap_or(0) as usize % threads;
            created_on.push(t);
            if op["op"] == "drop" {
                let target = op["target"].as_u64().unwrap_or(0) as usize;
                if created_on.get(target).map(|c| *c != t).unwrap_or(false) {
                    o.bump("probe.dropped_on_other_thread_than_creator", 1);
                }
            }
            txs[t].send(Some((op.clone(), i, false))).unwrap();
            if let Ok(Err(m)) = done_rx.recv() {
                panic_msg = Some(format!("op {i} {}: {m}", op["op"]));
                break;
            }
            o.sim_time += 1;
            // Content check after every operation (on a seeded thread).
            txs[check_thread].send(Some((op.clone(), i, true))).unwrap();
            if let Ok(Err(m)) = done_rx.recv() {
                panic_msg = Some(format!("check after op {i} {}: {m}", op["op"]));
                break;
            }
            if !state.lock().unwrap_or_else(|e| e.into_inner()).problems.is_empty() {
                break;
            }
        }
        for tx in &txs {
            let _ = tx.send(None);
        }
        for j in joins {
            let _ = j.join();
        }
        let st = state.lock().unwrap_or_else(|e| e.into_inner());
        for (k, v) in &st.stats {
            o.bump(k, *v);
        }
        if let Some(m) = panic_msg {
            o.violate("panic", "panic", m);
        } else if let Some(p) = st.problems.first() {
            o.violate("frozen-value-changed", "content", p.clone());
        }
        let drops = st.stats.get("fault.entity_dropped").copied().unwrap_or(0);
        o.nontrivial = drops > 0 && st.stats.get("probe.modules_with_dependencies").copied().unwrap_or(0) > 0;
        if threads > 1 {
            o.bump("probe.multi_thread_histories", 1);
        }
        if !case["quarantine"].as_bool().unwrap_or(true) {
            o.bump("probe.real_chunk_reuse_histories", 1);
        }
        let mut log: Vec<String> = st.problems.clone();
        for e in st.entities.iter().flatten() {
            match e {
                Entity::Frozen { recorded, .. } => log.extend(recorded.iter().cloned()),
                Entity::Handle { recorded, .. } => log.push(recorded.clone()),
                Entity::Globals { recorded, .. } => log.extend(recorded.iter().cloned()),
            }
        }
        log.push(format!("{:?}", st.stats));
        o.log_hash = kit::hash_lines(&log);
        o
    }

    fn shrink(&self, case: &Json) -> Vec<Json> {
        let mut out = Vec::new();
        let empty = Vec::new();
        let ops = case["ops"].as_array().unwrap_or(&empty);
        if case["threads"].as_u64().unwrap_or(1) > 1 {
            let mut c = case.clone();
            c["threads"] = json!(1);
            out.push(c);
        }
        // Replace an operation by a no-op (indices of later entities stay valid).
        for i in (0..ops.len()).rev() {
            if ops[i]["op"] != "nop" {
                let mut c = case.clone();
                c["ops"][i] = json!({"op": "nop", "thread": 0});
                out.push(c);
            }
        }
        // Drop statements inside build operations.
        for (i, op) in ops.iter().enumerate() {
            if op["op"] == "build" {
                if let Some(st) = op["stmts"].as_array() {
                    for k in (0..st.len()).rev() {
                        let mut s2 = st.clone();
                        s2.remove(k);
                        let mut c = case.clone();
                        c["ops"][i]["stmts"] = json!(s2);
                        out.push(c);
                    }
                }
            }
        }
        out
    }
}
