//! C15 — call-depth, tick and cancellation limits end evaluation with an error, exactly.
//!
//! The evaluator's tick counter is the simulated clock. Faults injected at chosen instants of
//! it: tick-budget expiry (budgets enumerated around T and around every 1000-tick boundary,
//! with carried-over ticks from an earlier evaluation shifting the phase), cancellation raised
//! at tick t (hook on every tick flips the flag the evaluator polls; also poll-count and
//! in-program `cancel()` variants), and call-depth overflow (limit n x depth d swept around
//! the threshold on every call path).

use std::cell::Cell;
use std::rc::Rc;

use serde_json::Value as Json;
use serde_json::json;
use starlark::environment::FrozenModule;
use starlark::environment::Module;
use starlark::eval::Evaluator;

use crate::core::*;
use crate::kit;
use crate::rng::Rng;
use crate::rng::fnv;
use crate::sched;

pub struct C15;

const PROBE: &str = r#"
def p_sq(n):
    return [i * i for i in range(n)]
def p_rec(n):
    return 0 if n == 0 else 1 + p_rec(n - 1)
p_acc = []
for p_i in range(5):
    p_acc.append(p_sq(p_i))
emit(p_acc, p_rec(8), sorted([3, 1, 2], key = lambda q: -q), apply(p_rec, 4))
"#;

fn gen_work(rng: &mut Rng) -> String {
    let mut t = String::new();
    t += "def w(n):\n    acc = 0\n    for i in range(n):\n        acc += i\n        if i % 61 == 0:\n            emit(\"w\", i)\n    return acc\n";
    t += "def rec(n):\n    return 0 if n == 0 else 1 + rec(n - 1)\n";
    t += "def outer(a, b):\n    t = 0\n    for i in range(a):\n";
    let nb = 1 + rng.usize(4);
    for _ in 0..nb {
        let l = match rng.below(8) {
            0 => "t += w(b)".to_owned(),
            1 => "t += len([j for j in range(b) if j % 3 == 0])".to_owned(),
            2 => "t += len(list(map(lambda q: q + 1, range(b % 17))))".to_owned(),
            3 => "t += rec(b % 23)".to_owned(),
            4 => "t += len(sorted(range(b % 13), key = lambda q: -q))".to_owned(),
            5 => "for k in {\"x\": 1, \"y\": 2}:\n            t += w(b % 7)".to_owned(),
            6 => "emit(\"outer\", i, t)".to_owned(),
            _ => "t += apply(w, b % 29)".to_owned(),
        };
        t += &format!("        {l}\n");
    }
    t += "    return t\n";
    t
}

struct RunRes {
    /// Per evaluation: (ok, error text).
    outcomes: Vec<(bool, String)>,
    transcripts: Vec<Vec<String>>,
    /// Evaluator tick count after each evaluation.
    ticks: Vec<u64>,
    /// Tick at which the cancel flag went up (hook count), if it did.
    cancel_raised_at: Option<u64>,
    probe: Option<(bool, String, Vec<String>)>,
    limit_check: Vec<String>,
    /// Second phase: (ok, error text, tick at which cancellation was re-raised, tick at stop, ticks before phase).
    again: Option<(bool, String, u64, u64, u64)>,
}

struct RunCfg {
    budget: Option<u64>,
    /// Raise the cancel flag when the k-th tick is reported.
    cancel_at_tick: Option<u64>,
    /// Raise the cancel flag at the n-th poll of the callback.
    cancel_at_poll: Option<u64>,
    depth: Option<u64>,
    probe: bool,
    /// After a failed evaluation (and the probe): evaluate the last program again on the same
    /// evaluator and raise cancellation `again_cancel_offset` ticks into it.
    again_cancel_offset: Option<u64>,
}

fn run(evals: &[String], cfg: &RunCfg, loader: Option<&kit::MapLoader>) -> RunRes {
    kit::ctx_reset();
    sched::install();
    let tick_counter = Rc::new(Cell::new(0u64));
    let raised_at = Rc::new(Cell::new(None::<u64>));
    let flag = kit::ctx(|c| c.cancel.clone());
    let again_at: Rc<Cell<Option<u64>>> = Rc::new(Cell::new(None));
    {
        let tc = tick_counter.clone();
        let ra = raised_at.clone();
        let fl = flag.clone();
        let at = cfg.cancel_at_tick;
        let at2 = again_at.clone();
        sched::set_tick_hook(Some(Box::new(move || {
            let k = tc.get() + 1;
            tc.set(k);
            if Some(k) == at || Some(k) == at2.get() {
                fl.set(true);
                ra.set(Some(k));
            }
        })));
    }
    let mut res = RunRes { outcomes: vec![], transcripts: vec![], ticks: vec![], cancel_raised_at: None, probe: None, limit_check: vec![], again: None };
    Module::with_temp_heap(|module| {
        let mut eval = Evaluator::new(&module);
        if let Some(l) = loader {
            eval.set_loader(l);
        }
        if let Some(b) = cfg.budget {
            let _ = eval.set_max_tick_count(b);
        }
        if let Some(d) = cfg.depth {
            let _ = eval.set_max_callstack_size(d as usize);
        }
        {
            let fl = flag.clone();
            let polls = Rc::new(Cell::new(0u64));
            let at_poll = cfg.cancel_at_poll;
            let tc = tick_counter.clone();
            let ra = raised_at.clone();
            eval.set_check_cancelled(Box::new(move || {
                let p = polls.get() + 1;
                polls.set(p);
                if Some(p) == at_poll && !fl.get() {
                    fl.set(true);
                    ra.set(Some(tc.get()));
                }
                fl.get()
            }));
        }
        let mut failed = false;
        for (i, text) in evals.iter().enumerate() {
            let before = kit::ctx(|c| c.transcript.len());
            let r = match kit::parse(&format!("e{i}.star"), text) {
                Err(e) => Err(e),
                Ok(ast) => eval.eval_module(ast, kit::globals()).map(|_| ()),
            };
            let t = kit::ctx(|c| c.transcript[before..].to_vec());
            res.transcripts.push(t);
            res.ticks.push(eval.get_total_tick_count());
            // The result type is not exported by the crate: only presence is observable here.
            res.limit_check.push(match eval.check_tick_count_limit() {
                None => "none".to_owned(),
                Some(_) => "some".to_owned(),
            });
            match r {
                Ok(()) => res.outcomes.push((true, String::new())),
                Err(e) => {
                    res.outcomes.push((false, format!("[{}] {}", kit::error_kind(&e), e.without_diagnostic())));
                    failed = true;
                    break;
                }
            }
        }
        if let Some(c) = kit::ctx(|c| c.cancel_tick) {
            if raised_at.get().is_none() {
                raised_at.set(Some(c));
            }
        }
        res.cancel_raised_at = raised_at.get();
        if cfg.probe && failed {
            // Re-usability: the same evaluator, cancellation withdrawn.
            flag.set(false);
            let before = kit::ctx(|c| c.transcript.len());
            let r = match kit::parse("probe.star", PROBE) {
                Err(e) => Err(e),
                Ok(ast) => eval.eval_module(ast, kit::globals()).map(|_| ()),
            };
            let t = kit::ctx(|c| c.transcript[before..].to_vec());
            res.probe = Some(match r {
                Ok(()) => (true, String::new(), t),
                Err(e) => (false, format!("[{}] {}", kit::error_kind(&e), e.without_diagnostic()), t),
            });
            res.ticks.push(eval.get_total_tick_count());
        }
        if let (true, Some(off)) = (failed, cfg.again_cancel_offset) {
            flag.set(false);
            raised_at.set(None);
            let before_ticks = eval.get_total_tick_count();
            // The hook counter and the evaluator's counter advance together.
            again_at.set(Some(tick_counter.get() + off));
            let delta = before_ticks as i64 - tick_counter.get() as i64;
            let text = evals.last().cloned().unwrap_or_default().replace("def ", "def again_");
            let _ = text;
            let r = match kit::parse("again.star", evals.last().map(|s| s.as_str()).unwrap_or("")) {
                Err(e) => Err(e),
                Ok(ast) => eval.eval_module(ast, kit::globals()).map(|_| ()),
            };
            let stop = eval.get_total_tick_count();
            let raised = raised_at.get().map(|k| (k as i64 + delta) as u64).unwrap_or(0);
            res.again = Some(match r {
                Ok(()) => (true, String::new(), raised, stop, before_ticks),
                Err(e) => (false, format!("[{}] {}", kit::error_kind(&e), e.without_diagnostic()), raised, stop, before_ticks),
            });
        }
    });
    sched::set_tick_hook(None);
    res
}

fn fresh_probe() -> Vec<String> {
    let r = run(&[PROBE.to_owned()], &RunCfg { budget: None, cancel_at_tick: None, cancel_at_poll: None, depth: None, probe: false, again_cancel_offset: None }, None);
    r.transcripts[0].clone()
}

fn is_prefix(short: &[String], long: &[String]) -> bool {
    short.len() <= long.len() && short == &long[..short.len()]
}

const DEF_SHAPES: &[&str] = &["direct", "mutual", "lambda", "compr", "struct_attr", "kwargs", "star_args", "frozen_loaded", "nested_def", "method_bound"];
const NATIVE_SHAPES: &[&str] = &["apply", "sorted_key", "map_cb", "partial", "filter_cb", "max_key"];

/// (definitions, call expression with `{D}`), recursion of depth D through the given path.
fn shape_program(shape: &str) -> (String, String) {
    let call = "emit(r({D}))".to_owned();
    let defs = match shape {
        "direct" | "frozen_loaded" => "def r(k):\n    if k == 0:\n        return 0\n    return 1 + r(k - 1)\n".to_owned(),
        "mutual" => "def r(k):\n    if k == 0:\n        return 0\n    return 1 + r2(k - 1)\ndef r2(k):\n    if k == 0:\n        return 0\n    return 1 + r(k - 1)\n".to_owned(),
        "lambda" => "r = lambda k: 0 if k == 0 else 1 + r(k - 1)\n".to_owned(),
        "compr" => "def r(k):\n    if k == 0:\n        return 0\n    return [1 + r(k - 1) for _u in range(1)][0]\n".to_owned(),
        "struct_attr" => "def r(k):\n    if k == 0:\n        return 0\n    return 1 + S.f(k - 1)\nS = struct(f = r)\n".to_owned(),
        "kwargs" => "def r(k = 0):\n    if k == 0:\n        return 0\n    return 1 + r(k = k - 1)\n".to_owned(),
        "star_args" => "def r(*a):\n    if a[0] == 0:\n        return 0\n    return 1 + r(*[a[0] - 1])\n".to_owned(),
        "nested_def" => "def mk():\n    def inner(k):\n        if k == 0:\n            return 0\n        return 1 + inner(k - 1)\n    return inner\nr = mk()\n".to_owned(),
        "method_bound" => "def r(k):\n    if k == 0:\n        return 0\n    L = []\n    L.append(1 + r(k - 1))\n    return L[0]\n".to_owned(),
        "apply" => "def r(k):\n    if k == 0:\n        return 0\n    return 1 + apply(r, k - 1)\n".to_owned(),
        "sorted_key" => "def r(k):\n    if k == 0:\n        return 0\n    return len(sorted([k - 1], key = r)) + k - 1\n".to_owned(),
        "map_cb" => "def r(k):\n    if k == 0:\n        return 0\n    return 1 + list(map(r, [k - 1]))[0]\n".to_owned(),
        "partial" => "def r(k):\n    if k == 0:\n        return 0\n    return 1 + partial(r, k - 1)()\n".to_owned(),
        "filter_cb" => "def r(k):\n    if k == 0:\n        return 0\n    return len(list(filter(r, [k - 1]))) * 0 + k\n".to_owned(),
        "max_key" => "def r(k):\n    if k == 0:\n        return 0\n    return max([k - 1], key = r) + 1\n".to_owned(),
        _ => unreachable!(),
    };
    (defs, call)
}

fn frozen_lib() -> FrozenModule {
    Module::with_temp_heap(|m| {
        {
            let mut e = Evaluator::new(&m);
            let ast = kit::parse("lib.star", "def g(x):\n    y = x\n    return y\ndef gg(n):\n    if n == 0:\n        return 0\n    return 1 + gg(n - 1)\nSG = struct(g = g)\n").unwrap();
            e.eval_module(ast, kit::globals()).unwrap();
        }
        m.freeze().unwrap()
    })
}

fn frozen_direct() -> FrozenModule {
    Module::with_temp_heap(|m| {
        {
            let mut e = Evaluator::new(&m);
            let ast = kit::parse("lib.star", "def r(k):\n    if k == 0:\n        return 0\n    return 1 + r(k - 1)\n").unwrap();
            e.eval_module(ast, kit::globals()).unwrap();
        }
        m.freeze().unwrap()
    })
}

/// Result of evaluating the shape at depth d with call-stack limit n.
#[derive(Debug, Clone, PartialEq)]
enum DepthOutcome {
    Ok(Vec<String>),
    Overflow,
    Other(String),
}

fn run_depth(shape: &str, n: Option<u64>, d: u64, probe: bool) -> (DepthOutcome, Option<(bool, String, Vec<String>)>) {
    let (defs, call) = shape_program(shape);
    let loader;
    let (text, l) = if shape == "frozen_loaded" {
        loader = kit::MapLoader { modules: [("lib".to_owned(), frozen_direct())].into_iter().collect() };
        (format!("load(\"lib\", \"r\")\n{}\n", call.replace("{D}", &d.to_string())), Some(&loader))
    } else {
        (format!("{defs}{}\n", call.replace("{D}", &d.to_string())), None)
    };
    let r = run(&[text], &RunCfg { budget: None, cancel_at_tick: None, cancel_at_poll: None, depth: n, probe, again_cancel_offset: None }, l);
    let out = match &r.outcomes[0] {
        (true, _) => DepthOutcome::Ok(r.transcripts[0].clone()),
        (false, e) if e.starts_with("[StackOverflow]") => DepthOutcome::Overflow,
        (false, e) => DepthOutcome::Other(e.clone()),
    };
    (out, r.probe)
}

/// The limit is (re)configured on an evaluator that has already evaluated something. Whatever the
/// call answers - refused with an error (then the earlier maximum stays in force) or accepted (then
/// the new one is) - the maximum in force afterwards must be the one the embedder was told.
/// Returns (accepted, largest depth of direct recursion that succeeds afterwards).
fn late_limit(first: Option<u64>, late: u64, upto: u64) -> Result<(bool, Option<u64>), String> {
    kit::ctx_reset();
    let mut out = Err("not run".to_owned());
    Module::with_temp_heap(|module| {
        let mut eval = Evaluator::new(&module);
        if let Some(f) = first {
            let _ = eval.set_max_callstack_size(f as usize);
        }
        let warm = "def r(k):\n    if k == 0:\n        return 0\n    return 1 + r(k - 1)\nemit(r(1))\n";
        match kit::parse("warm.star", warm) {
            Ok(ast) => {
                if let Err(e) = eval.eval_module(ast, kit::globals()) {
                    out = Err(format!("warm-up failed: {e}"));
                    return;
                }
            }
            Err(e) => {
                out = Err(format!("{e}"));
                return;
            }
        }
        let accepted = eval.set_max_callstack_size(late as usize).is_ok();
        let mut last_ok = None;
        let mut seen_fail = false;
        for d in 0..=upto {
            let r = match kit::parse("probe.star", &format!("emit(r({d}))\n")) {
                Ok(ast) => eval.eval_module(ast, kit::globals()).map(|_| ()),
                Err(e) => Err(e),
            };
            match r {
                Ok(()) => {
                    if seen_fail {
                        out = Err(format!("depth {d} succeeds after a smaller depth overflowed"));
                        return;
                    }
                    last_ok = Some(d);
                }
                Err(e) => {
                    if !matches!(e.kind(), starlark::ErrorKind::StackOverflow(_)) {
                        let text = format!("{e}");
                        if d == 0 && text.contains("call stack is already allocated") {
                            // The re-configuration is refused when the next evaluation starts (the
                            // stack of the first evaluation has another size): no limit was changed.
                            out = Err("REFUSED-AT-EVALUATION".to_owned());
                            return;
                        }
                        out = Err(format!("depth {d}: wrong error {}", kit::clip(&text)));
                        return;
                    }
                    seen_fail = true;
                }
            }
        }
        out = Ok((accepted, last_ok));
    });
    kit::ctx_reset();
    out
}

/// `k` cancelled (or over-budget) evaluations in a row on one evaluator, the request withdrawn
/// each time; afterwards the call-depth threshold of direct recursion must be what it is on a
/// fresh evaluator (whatever one failed evaluation leaves behind adds up).
/// Returns the largest depth in 0..=upto that succeeds afterwards.
fn depth_after_repeated_cancel(k: u64, upto: u64, by_budget: bool) -> Result<Option<u64>, String> {
    kit::ctx_reset();
    let mut out = Err("not run".to_owned());
    Module::with_temp_heap(|module| {
        let mut eval = Evaluator::new(&module);
        let flag = Rc::new(Cell::new(false));
        let f2 = flag.clone();
        eval.set_check_cancelled(Box::new(move || f2.get()));
        let ev = |eval: &mut Evaluator, text: &str| match kit::parse("rc.star", text) {
            Ok(ast) => eval.eval_module(ast, kit::globals()).map(|_| ()),
            Err(e) => Err(e),
        };
        if let Err(e) = ev(&mut eval, "def r(k):\n    if k == 0:\n        return 0\n    return 1 + r(k - 1)\ndef spin(n):\n    for i in range(n):\n        pass\n") {
            out = Err(format!("setup: {e}"));
            return;
        }
        for i in 0..k {
            let r = if by_budget {
                // A budget that the next evaluation exceeds (cumulative count), raised afterwards.
                let now = eval.get_total_tick_count();
                let _ = eval.set_max_tick_count(now + 1500);
                let r = ev(&mut eval, "spin(4000)\n");
                let _ = eval.set_max_tick_count(u64::MAX);
                r
            } else {
                flag.set(true);
                let r = ev(&mut eval, "spin(4000)\n");
                flag.set(false);
                r
            };
            if r.is_ok() {
                out = Err(format!("round {i}: the limit did not fire"));
                return;
            }
        }
        let mut last_ok = None;
        for d in 0..=upto {
            match ev(&mut eval, &format!("emit(r({d}))\n")) {
                Ok(()) => last_ok = Some(d),
                Err(e) => {
                    if !matches!(e.kind(), starlark::ErrorKind::StackOverflow(_)) {
                        out = Err(format!("depth {d} after {k} limit errors: {}", kit::clip(&format!("{e}"))));
                        return;
                    }
                    break;
                }
            }
        }
        out = Ok(last_ok);
    });
    kit::ctx_reset();
    out
}

/// Largest depth in lo..=hi that succeeds under limit n, after checking there is one threshold.
fn threshold(o: &mut Outcome, shape: &str, n: u64, lo: u64, hi: u64, key: &str) -> Option<u64> {
    let mut last_ok: Option<u64> = None;
    let mut seen_fail = false;
    for d in lo..=hi {
        let (r, _) = run_depth(shape, Some(n), d, false);
        o.sim_time += d;
        match r {
            DepthOutcome::Ok(t) => {
                if seen_fail {
                    o.violate("depth-limit-not-monotone", key, format!("shape {shape} limit {n}: depth {d} succeeds after a smaller depth overflowed"));
                }
                // Within the limit the program is unaffected.
                let (u, _) = run_depth(shape, Some(100_000), d, false);
                if DepthOutcome::Ok(t.clone()) != u {
                    o.violate("within-limit-affected", key, format!("shape {shape} limit {n} depth {d}: {t:?} vs unlimited {u:?}"));
                }
                last_ok = Some(d);
            }
            DepthOutcome::Overflow => {
                seen_fail = true;
                o.bump("fault.depth_overflow", 1);
            }
            DepthOutcome::Other(e) => {
                o.violate("depth-wrong-error", key, format!("shape {shape} limit {n} depth {d}: {e}"));
            }
        }
    }
    last_ok
}

impl World for C15 {
    fn id(&self) -> &'static str {
        "C15"
    }

    fn describe(&self) -> Describe {
        Describe {
            level: "fault_enumeration",
            rule: "three case kinds: budget = generated loop/call program (cost T measured by a limit-free run, optional prelude evaluation shifting the 1000-tick phase) x all budgets in {T-1001..T+1 boundary set, every k*1000 +-1 up to T, small, T/2}; cancel = same programs x cancellation raised at ~24 tick positions (every tick position for T<=300 in thorough) via the per-tick hook, at the n-th poll of the callback, or by an in-program cancel(); ticks = 12 loop kinds and 31 call paths with their exact number of calls (ticks per iteration = loop + calls); depth = recursion shape (10 pure-def call paths, 6 native-callback paths) x limit n in {1,2,3,5,10,50(default),200} x all depths around the threshold, plus unbounded recursion; non-trivial = at least one limit actually fired; distinct = digest of (program, limits)",
            sim_time_unit: "evaluator ticks executed under a limit",
            real_components: vec!["Evaluator tick accounting (report_forward_progress, run_infrequent_instr_checks)", "cancellation polling", "CheapCallStack depth cap on every call path", "bytecode call/loop instructions", "native callbacks (sorted, map, filter, partial, max)"],
            stub_components: vec!["cancellation source (flag flipped by the per-tick hook / poll counter / cancel() native)"],
            assumptions: vec!["documented check interval is 1000 ticks (INFREQUENT_INSTRUCTION_CHECK_PERIOD) and a final check at the end of every evaluation", "no absolute tick constants are assumed: T is measured by a limit-free run of the same program", "native-callback recursion may consume up to two frames per level; only pure-def paths must share one threshold"],
            exhaustive: false,
        }
    }

    fn budget(&self, tier: Tier) -> Budget {
        match tier {
            Tier::Quick => Budget { runs: 3000, wall_s: 120, block: 100, recheck: 32, hang_s: 120 },
            Tier::Thorough => Budget { runs: 300_000, wall_s: 1500, block: 200, recheck: 128, hang_s: 120 },
        }
    }

    fn generate(&self, seed: u64, index: u64, tier: Tier) -> Json {
        let root = Rng::new(run_seed(seed, "C15", index));
        let mut wl = root.fork("workload");
        let mut fl = root.fork("faults");
        match index % 3 {
            2 => {
                let all: Vec<&str> = DEF_SHAPES.iter().chain(NATIVE_SHAPES.iter()).copied().collect();
                let shape = all[((index / 3) as usize) % all.len()];
                let ns = [1u64, 2, 3, 5, 10, 50, 200];
                let n = ns[((index / 3) as usize / all.len()) % ns.len()];
                json!({"mode": "depth", "shape": shape, "n": n, "default_limit": fl.chance(1, 4)})
            }
            m => {
                let work = gen_work(&mut wl);
                let a = 1 + wl.below(12);
                let b = wl.below(if tier == Tier::Thorough { 400 } else { 160 });
                let main = format!("{work}emit(outer({a}, {b}))\nemit(\"done\")\n");
                let prelude = if wl.bool() {
                    Some(format!("def pre(n):\n    for i in range(n):\n        pass\npre({})\nemit(\"prelude\")\n", wl.below(2600)))
                } else {
                    None
                };
                let mut evals = Vec::new();
                if let Some(p) = prelude {
                    evals.push(p);
                }
                evals.push(main);
                if m == 0 {
                    json!({"mode": "budget", "evals": evals, "extra_budgets": [1 + fl.below(5000), 1 + fl.below(50)]})
                } else {
                    let fr: Vec<f64> = (0..16).map(|_| fl.below(1_000_000) as f64 / 1e6).collect();
                    json!({"mode": "cancel", "evals": evals, "fracs": fr, "polls": [1 + fl.below(4), 1 + fl.below(12)],
                           "in_program": fl.chance(1, 3), "all_ticks_if_at_most": if tier == Tier::Thorough { 300 } else { 0 }})
                }
            }
        }
    }

    fn execute(&self, case: &Json) -> Outcome {
        let mut o = Outcome::default();
        o.digest = fnv(case.to_string().as_bytes());
        let mode = case["mode"].as_str().unwrap_or("");
        let evals: Vec<String> = case["evals"].as_array().map(|a| a.iter().filter_map(|x| x.as_str().map(|s| s.to_owned())).collect()).unwrap_or_default();
        let none = RunCfg { budget: None, cancel_at_tick: None, cancel_at_poll: None, depth: None, probe: false, again_cancel_offset: None };
        let mut log: Vec<String> = Vec::new();
        match mode {
            "budget" | "cancel" => {
                let reference = run(&evals, &none, None);
                let again = run(&evals, &none, None);
                if reference.ticks != again.ticks {
                    o.violate("tick-count-not-repeatable", "ticks-repeat", format!("{:?} vs {:?}", reference.ticks, again.ticks));
                }
                if reference.outcomes.iter().any(|(ok, _)| !ok) {
                    // Program fails on its own: not a useful cell.
                    o.bump("invalid_cells", 1);
                    return o;
                }
                let t_total = *reference.ticks.last().unwrap();
                let probe_ref = fresh_probe();
                log.push(format!("T={:?}", reference.ticks));
                // Which evaluation contains tick t?
                let eval_of = |t: u64| reference.ticks.iter().position(|x| t <= *x);
                if mode == "budget" {
                    let mut budgets: Vec<u64> = Vec::new();
                    for d in [1001u64, 1000, 999, 2, 1, 0] {
                        if t_total > d {
                            budgets.push(t_total - d);
                        }
                    }
                    budgets.push(t_total + 1);
                    budgets.push(t_total + 1000);
                    budgets.push(std::cmp::max(1, t_total / 2));
                    let mut k = 1000;
                    while k <= t_total + 1000 {
                        budgets.extend([k - 1, k, k + 1]);
                        k += 1000;
                    }
                    for tk in &reference.ticks {
                        budgets.extend([tk.saturating_sub(1).max(1), *tk, tk + 1]);
                    }
                    if let Some(x) = case["extra_budgets"].as_array() {
                        budgets.extend(x.iter().filter_map(|v| v.as_u64()).filter(|v| *v > 0));
                    }
                    if let Some(x) = case["budgets"].as_array() {
                        budgets = x.iter().filter_map(|v| v.as_u64()).collect();
                    }
                    budgets.sort();
                    budgets.dedup();
                    for b in budgets {
                        if o.violation.is_some() {
                            break;
                        }
                        let r = run(&evals, &RunCfg { budget: Some(b), cancel_at_tick: None, cancel_at_poll: None, depth: None, probe: true, again_cancel_offset: None }, None);
                        o.sim_time += r.ticks.iter().copied().max().unwrap_or(0);
                        log.push(format!("b={b} outcomes={:?} ticks={:?}", r.outcomes, r.ticks));
                        // Model: evaluation i fails iff cumulative ticks at its end exceed b
                        // (and no earlier evaluation failed).
                        let mut expect_fail_at: Option<usize> = None;
                        for (i, tk) in reference.ticks.iter().enumerate() {
                            if *tk > b {
                                expect_fail_at = Some(i);
                                break;
                            }
                        }
                        let got_fail_at = r.outcomes.iter().position(|(ok, _)| !ok);
                        let key = "budget";
                        if expect_fail_at != got_fail_at {
                            o.violate("budget-outcome-wrong", key, format!("budget {b}, needed ticks {:?}: expected failure at evaluation {:?}, got {:?} ({:?})", reference.ticks, expect_fail_at, got_fail_at, r.outcomes));
                            break;
                        }
                        match got_fail_at {
                            Some(i) => {
                                o.nontrivial = true;
                                o.bump("fault.tick_budget_expired", 1);
                                let (_, e) = &r.outcomes[i];
                                if !e.contains("ticks has been exceeded") {
                                    o.violate("budget-wrong-error", key, format!("budget {b}: error is `{e}`"));
                                }
                                let stop = r.ticks[i];
                                if stop <= b || stop - b > 1000 {
                                    o.violate("budget-overshoot", key, format!("budget {b}: evaluation stopped at tick {stop} (overshoot {})", stop as i64 - b as i64));
                                }
                                if stop == reference.ticks[i] {
                                    o.bump("probe.budget_hit_at_end_of_evaluation_check", 1);
                                } else {
                                    o.bump("probe.budget_hit_mid_evaluation", 1);
                                }
                                if !is_prefix(&r.transcripts[i], &reference.transcripts[i]) {
                                    o.violate("limited-transcript-not-prefix", key, format!("budget {b}: {:?}", kit::diff_transcripts(&reference.transcripts[i], &r.transcripts[i])));
                                }
                                if r.limit_check[i] != "some" {
                                    o.violate("check-tick-count-limit-inconsistent", key, format!("budget {b}: after the error check_tick_count_limit() says {}", r.limit_check[i]));
                                }
                                for j in 0..i {
                                    if r.transcripts[j] != reference.transcripts[j] {
                                        o.violate("within-limit-affected", key, format!("budget {b}: evaluation {j} differs"));
                                    }
                                }
                                // Re-usable: the probe runs; it fails (only) because the cumulative budget is spent.
                                if let Some((pok, perr, pt)) = &r.probe {
                                    o.bump("probe.probe_evaluations", 1);
                                    if !is_prefix(pt, &probe_ref) {
                                        o.violate("probe-differs-after-limit", key, format!("budget {b}: {:?}", kit::diff_transcripts(&probe_ref, pt)));
                                    }
                                    if *pok || !perr.contains("ticks has been exceeded") {
                                        o.violate("budget-outcome-wrong", key, format!("budget {b}: probe on the exhausted evaluator returned ok={pok} `{perr}`"));
                                    }
                                }
                            }
                            None => {
                                for (j, t) in r.transcripts.iter().enumerate() {
                                    if t != &reference.transcripts[j] {
                                        o.violate("within-limit-affected", key, format!("budget {b} >= {t_total}: evaluation {j} transcript differs"));
                                    }
                                }
                                if r.ticks != reference.ticks {
                                    o.violate("tick-count-not-repeatable", key, format!("budget {b}: ticks {:?} vs {:?}", r.ticks, reference.ticks));
                                }
                                if r.limit_check.iter().any(|c| c == "none") {
                                    o.violate("check-tick-count-limit-inconsistent", key, format!("budget {b} not exceeded but check says {:?}", r.limit_check));
                                }
                                if b == t_total {
                                    o.bump("probe.budget_exactly_T_succeeds", 1);
                                }
                            }
                        }
                    }
                } else {
                    // Cancellation at tick t.
                    let mut ts: Vec<u64> = Vec::new();
                    if t_total <= case["all_ticks_if_at_most"].as_u64().unwrap_or(0) {
                        ts = (1..=t_total + 1).collect();
                    } else {
                        if let Some(fr) = case["fracs"].as_array() {
                            for x in fr {
                                ts.push(1 + (x.as_f64().unwrap_or(0.0) * t_total as f64) as u64);
                            }
                        }
                        let mut k = 1000;
                        while k <= t_total + 1 {
                            ts.extend([k - 1, k, k + 1]);
                            k += 1000;
                        }
                        ts.extend([1, t_total.max(1), t_total + 1]);
                        for tk in &reference.ticks {
                            ts.extend([tk.max(&1).to_owned(), tk + 1]);
                        }
                    }
                    if let Some(x) = case["ticks"].as_array() {
                        ts = x.iter().filter_map(|v| v.as_u64()).collect();
                    }
                    ts.sort();
                    ts.dedup();
                    let key = "cancel";
                    let mut cfgs: Vec<(String, RunCfg)> = ts
                        .iter()
                        .enumerate()
                        .map(|(i, t)| (format!("tick {t}"), RunCfg { budget: None, cancel_at_tick: Some(*t), cancel_at_poll: None, depth: None, probe: true, again_cancel_offset: if i % 3 == 0 { Some(1 + (t * 7 + 13) % (t_total.max(2) - 1)) } else { None } }))
                        .collect();
                    if let Some(p) = case["polls"].as_array() {
                        for x in p.iter().filter_map(|v| v.as_u64()) {
                            cfgs.push((format!("poll {x}"), RunCfg { budget: None, cancel_at_tick: None, cancel_at_poll: Some(x), depth: None, probe: true, again_cancel_offset: Some(1 + x * 97 % t_total.max(1)) }));
                        }
                    }
                    for (what, cfg) in cfgs {
                        if o.violation.is_some() {
                            break;
                        }
                        let r = run(&evals, &cfg, None);
                        o.sim_time += r.ticks.iter().copied().max().unwrap_or(0);
                        log.push(format!("{what} outcomes={:?} ticks={:?} raised={:?}", r.outcomes, r.ticks, r.cancel_raised_at));
                        let got_fail_at = r.outcomes.iter().position(|(ok, _)| !ok);
                        match r.cancel_raised_at {
                            None => {
                                // Never raised (t beyond the end): must be unaffected.
                                if got_fail_at.is_some() || r.transcripts != reference.transcripts {
                                    o.violate("within-limit-affected", key, format!("{what}: cancellation never raised but run differs: {:?}", r.outcomes));
                                }
                            }
                            Some(t) => {
                                o.nontrivial = true;
                                o.bump("fault.cancellation_raised", 1);
                                let i_expected = if cfg.cancel_at_tick.is_some() { eval_of(t) } else { got_fail_at };
                                match got_fail_at {
                                    None => o.violate("cancellation-ignored", key, format!("{what}: flag raised at tick {t} of {t_total} but every evaluation succeeded")),
                                    Some(i) => {
                                        let (_, e) = &r.outcomes[i];
                                        if !e.contains("Evaluation cancelled") {
                                            o.violate("cancel-wrong-error", key, format!("{what}: error is `{e}`"));
                                        }
                                        if let Some(ie) = i_expected {
                                            if ie != i {
                                                o.violate("cancellation-late", key, format!("{what}: raised during evaluation {ie}, honoured in evaluation {i}"));
                                            }
                                        }
                                        let stop = r.ticks[i];
                                        if stop + 1 < t || stop.saturating_sub(t) > 1000 {
                                            o.violate("cancellation-late", key, format!("{what}: raised at tick {t}, evaluation stopped at tick {stop}"));
                                        }
                                        o.bump(&format!("probe.cancel_phase_{}", (t % 1000) / 250), 1);
                                        if stop == reference.ticks[i] {
                                            o.bump("probe.cancel_seen_by_end_of_evaluation_check", 1);
                                        }
                                        if !is_prefix(&r.transcripts[i], &reference.transcripts[i]) {
                                            o.violate("limited-transcript-not-prefix", key, format!("{what}: {:?}", kit::diff_transcripts(&reference.transcripts[i], &r.transcripts[i])));
                                        }
                                        if let Some((pok, perr, pt)) = &r.probe {
                                            o.bump("probe.probe_evaluations", 1);
                                            if !*pok || pt != &probe_ref {
                                                o.violate("probe-differs-after-limit", key, format!("{what}: probe ok={pok} `{perr}` {:?}", kit::diff_transcripts(&probe_ref, pt)));
                                            }
                                        }
                                        // Evaluator re-use with a renewed cancellation request.
                                        if let Some((aok, aerr, araised, astop, abefore)) = &r.again {
                                            o.bump("probe.recancel_on_reused_evaluator", 1);
                                            let main_cost = reference.ticks.last().unwrap() - if reference.ticks.len() > 1 { reference.ticks[reference.ticks.len() - 2] } else { 0 };
                                            if *araised == 0 {
                                                // Offset beyond the end of the program: must simply succeed.
                                                if !*aok {
                                                    o.violate("within-limit-affected", key, format!("{what}: re-run on the re-used evaluator failed without a request: {aerr}"));
                                                }
                                            } else if *aok {
                                                o.violate("cancellation-ignored", key, format!("{what}: on the re-used evaluator (ticks before {abefore}) cancellation re-raised at tick {araised} was ignored for a program of {main_cost} ticks"));
                                            } else if !aerr.contains("Evaluation cancelled") || astop.saturating_sub(*araised) > 1000 {
                                                o.violate("cancellation-late", key, format!("{what}: on the re-used evaluator cancellation re-raised at tick {araised}, evaluation stopped at tick {astop} with `{aerr}`"));
                                            }
                                        }
                                    }
                                }
                            }
                        }
                    }
                    if case["in_program"].as_bool().unwrap_or(false) {
                        // The program cancels itself from inside a loop body.
                        let mut e2 = evals.clone();
                        let last = e2.len() - 1;
                        e2[last] = e2[last].replace("        acc += i\n", "        acc += i\n        if i == 7:\n            cancel()\n");
                        let r = run(&e2, &RunCfg { budget: None, cancel_at_tick: None, cancel_at_poll: None, depth: None, probe: true, again_cancel_offset: None }, None);
                        if let Some(t) = r.cancel_raised_at {
                            o.bump("fault.cancellation_raised", 1);
                            o.bump("probe.cancel_from_inside_program", 1);
                            match r.outcomes.iter().position(|(ok, _)| !ok) {
                                None => o.violate("cancellation-ignored", key, format!("in-program cancel() at tick {t}: evaluation succeeded")),
                                Some(i) => {
                                    let stop = r.ticks[i];
                                    if stop.saturating_sub(t) > 1000 {
                                        o.violate("cancellation-late", key, format!("in-program cancel() at tick {t}, stopped at {stop}"));
                                    }
                                }
                            }
                        }
                    }
                }
                // Linearity of the tick count in a loop bound (no absolute constants assumed).
                if o.violation.is_none() && mode == "budget" {
                    let f = |n: u64| {
                        let r = run(&[format!("def lin(n):\n    for i in range(n):\n        pass\nlin({n})\n")], &none, None);
                        r.ticks[0]
                    };
                    let (a, b, c) = (f(10), f(11), f(12));
                    if b - a != c - b || b - a == 0 {
                        o.violate("tick-count-not-linear", "ticks-linear", format!("ticks for bounds 10,11,12: {a},{b},{c}"));
                    }
                    // Every kind of loop counts its iterations: one more iteration costs a constant,
                    // non-zero number of ticks, whatever is iterated and wherever the loop stands.
                    let loops: [(&str, &str); 12] = [
                        ("for_list", "def lp(n):\n    for i in [0] * n:\n        pass\nlp({N})\n"),
                        ("for_dict", "D = {j: j for j in range({N})}\ndef lp():\n    for k in D:\n        pass\nlp()\n"),
                        ("for_str_elems", "def lp(n):\n    for c in (\"a\" * n).elems():\n        pass\nlp({N})\n"),
                        ("for_set", "S = set(range({N}))\ndef lp():\n    for k in S:\n        pass\nlp()\n"),
                        ("list_compr", "def lp(n):\n    return [j for j in range(n)]\nlp({N})\n"),
                        ("compr_second_clause", "def lp(n):\n    return [j for i in range(2) for j in range(n)]\nlp({N})\n"),
                        ("dict_compr", "def lp(n):\n    return {j: 1 for j in range(n)}\nlp({N})\n"),
                        ("compr_if", "def lp(n):\n    return [j for j in range(n) if j % 2 == 0]\nlp({N})\n"),
                        ("module_level_for", "for i in range({N}):\n    pass\n"),
                        ("module_level_compr", "R = [j for j in range({N})]\n"),
                        ("for_unpack_continue", "def lp(n):\n    for a, b in zip(range(n), range(n)):\n        if a == b:\n            continue\nlp({N})\n"),
                        ("nested_for_inner", "def lp(n):\n    for i in range(3):\n        for j in range(n):\n            pass\nlp({N})\n"),
                    ];
                    let (lname, ltext) = loops[((o.digest >> 8) % loops.len() as u64) as usize];
                    let fl = |n: u64| run(&[ltext.replace("{N}", &n.to_string())], &none, None).ticks[0];
                    let (la, lb, lc) = (fl(10), fl(11), fl(12));
                    o.bump(&format!("probe.loop_kind_{lname}"), 1);
                    if lb < la || lb - la != lc - lb || lb - la == 0 {
                        o.violate("loop-iteration-not-counted", &format!("ticks-loop/{lname}"), format!("loop kind {lname}: ticks for bounds 10,11,12: {la},{lb},{lc}"));
                    }
                    // Every call path must be counted: n more calls cost a constant, non-zero number of ticks.
                    // The loop driving the calls costs (b - a) per iteration, measured above.
                    let per_iter = b - a;
                    let lib = frozen_lib();
                    let lib_loader = kit::MapLoader { modules: [("lib".to_owned(), lib)].into_iter().collect() };
                    // (name, definitions, expression evaluated once per iteration, number of function calls it makes:
                    // the documented unit is "one tick is either one function call or one loop backedge")
                    let paths: [(&str, &str, &str, u64); 31] = [
                        // a def stored under the name of a builtin method of another type
                        ("struct_field_named_get", "def g0(x):\n    return x\nS = struct(get = g0)\n", "S.get(i)", 1),
                        ("struct_field_named_pop", "def g0(x):\n    return x\nS = struct(pop = g0)\n", "S.pop(i)", 1),
                        ("struct_field_named_append", "def g0(x):\n    return x\nS = struct(append = g0)\n", "S.append(i)", 1),
                        ("struct_field_named_index", "def g0(x):\n    return x\nS = struct(index = g0, items = g0)\n", "S.index(S.items(i))", 2),
                        ("namespace_field_named_update", "def g0(x):\n    return x\nS = namespace(update = g0)\n", "S.update(i)", 1),
                        ("record_field_named_keys", "def g0(x):\n    return x\nRk = record(keys = typing.Any)\nS = Rk(keys = g0)\n", "S.keys(i)", 1),
                        ("star_args", "def g(*a):\n    return a\n", "g(*[i])", 1),
                        ("star_kwargs", "def g(**kw):\n    return kw\n", "g(**{\"k\": i})", 1),
                        ("default_args", "def g(x, y = [1], *, z = 2):\n    return [x, y, z]\n", "g(i)", 1),
                        ("partial", "def g0(x, y):\n    return [x, y]\ng = partial(g0, 1)\n", "g(i)", 2),
                        ("tail_call", "def g1(x):\n    return [x]\ndef g(x):\n    return g1(x)\n", "g(i)", 2),
                        ("frozen_loaded", "load(\"lib\", \"g\")\n", "g(i)", 1),
                        ("frozen_internal_calls", "load(\"lib\", \"gg\")\n", "gg(3)", 4),
                        ("frozen_struct_attr", "load(\"lib\", \"SG\")\n", "SG.g(i)", 1),
                        ("def", "def g(x):\n    return x\n", "g(i)", 1),
                        ("lambda", "g = lambda x: x\n", "g(i)", 1),
                        ("struct_attr", "def g0(x):\n    return x\nS = struct(g = g0)\n", "S.g(i)", 1),
                        ("kwargs", "def g(x = 0):\n    return x\n", "g(x = i)", 1),
                        ("nested_call", "def g1(x):\n    return x\ndef g(x):\n    return g1(x)\n", "g(i)", 2),
                        ("native_callback", "def g(x):\n    return x\n", "apply(g, i)", 2),
                        ("comprehension", "def g(x):\n    return x\n", "[g(j) for j in range(1)]", 2),
                        // builtin methods called on a receiver whose type the compiler can guess from the method name
                        ("known_method_list_append", "L = []\n", "L.append(i)", 1),
                        ("known_method_dict_get", "D = {1: 2}\n", "D.get(i)", 1),
                        ("known_method_str_find", "T = \"abcabc\"\n", "T.find(\"c\", i)", 1),
                        ("known_method_set_add", "S = set()\n", "S.add(i)", 1),
                        ("known_method_on_local", "", "[].append(i)", 1),
                        ("known_method_dict_setdefault", "D = {}\n", "D.setdefault(i, 0)", 1),
                        // natives which call back: the native call plus one call per callback
                        ("sorted_key", "def g(x):\n    return x\n", "sorted([i, i], key = g)", 3),
                        ("max_key", "def g(x):\n    return x\n", "max([i, i, i], key = g)", 4),
                        ("map_callback", "def g(x):\n    return x\n", "map(g, [i, i])", 3),
                        ("filter_callback", "def g(x):\n    return True\n", "filter(g, [i])", 2),
                    ];
                    let which = (o.digest % paths.len() as u64) as usize;
                    let (pname, defs, call, calls) = paths[which];
                    let fc = |n: u64| {
                        let r = run(&[format!("{defs}def drive(n):\n    for i in range(n):\n        {call}\ndrive({n})\n")], &none, Some(&lib_loader));
                        r.ticks[0]
                    };
                    // A non-inlinable recursive def costs the same ticks whether it is defined locally
                    // or loaded from a frozen module (ticks count calls, on every call path).
                    let local = run(&["def gg(n):\n    if n == 0:\n        return 0\n    return 1 + gg(n - 1)\ndef drive(n):\n    for i in range(n):\n        gg(5)\ndrive(10)\n".to_owned()], &none, None).ticks[0];
                    let loaded = run(&["load(\"lib\", \"gg\")\ndef drive(n):\n    for i in range(n):\n        gg(5)\ndrive(10)\n".to_owned()], &none, Some(&lib_loader)).ticks[0];
                    if local != loaded {
                        o.violate("call-not-counted", "ticks-call/frozen_vs_local", format!("recursive def called 10x5 deep: {local} ticks when defined locally, {loaded} when loaded from a frozen module"));
                    }
                    let (a2, b2, c2) = (fc(10), fc(11), fc(12));
                    o.bump(&format!("probe.call_path_{pname}"), 1);
                    if b2 < a2 || b2 - a2 != c2 - b2 || b2 - a2 <= per_iter {
                        o.violate("call-not-counted", &format!("ticks-call/{pname}"), format!("call path {pname}: ticks for 10,11,12 calls: {a2},{b2},{c2} (loop alone costs {per_iter} per iteration)"));
                    } else if b2 - a2 != per_iter + calls {
                        // One tick per function call, whoever makes the call (bytecode or a native) and
                        // however the callee was found (method known at compile time or looked up).
                        let class = if b2 - a2 < per_iter + calls { "call-not-counted" } else { "call-counted-twice" };
                        o.violate(class, &format!("ticks-call/{pname}"), format!("call path {pname}: `{call}` makes {calls} call(s) per iteration, ticks for 10,11,12 iterations: {a2},{b2},{c2} = {} per iteration, of which the loop alone costs {per_iter}", b2 - a2));
                    }
                }
            }
            "depth" => {
                let shape = case["shape"].as_str().unwrap_or("direct");
                let n = case["n"].as_u64().unwrap_or(50);
                let key = format!("depth/{shape}");
                let is_native = NATIVE_SHAPES.contains(&shape);
                // Reference threshold of direct recursion under the same limit.
                let hi = n + 3;
                let d_direct = threshold(&mut o, "direct", n, 0, hi, "depth/direct");
                let d_shape = if shape == "direct" { d_direct } else { threshold(&mut o, shape, n, 0, hi, &key) };
                log.push(format!("shape={shape} n={n} direct={d_direct:?} shape={d_shape:?}"));
                o.nontrivial = true;
                match (d_direct, d_shape) {
                    (Some(dd), Some(ds)) => {
                        if dd >= hi {
                            o.violate("depth-limit-not-enforced", "depth/direct", format!("limit {n}: direct recursion of depth {dd} still succeeds"));
                        }
                        if !is_native && ds != dd {
                            o.violate("depth-threshold-differs-by-call-path", &key, format!("limit {n}: direct recursion succeeds up to depth {dd}, `{shape}` up to {ds}"));
                        }
                        if is_native && (ds > dd || (ds + 2) * 4 < dd) {
                            o.violate("depth-threshold-differs-by-call-path", &key, format!("limit {n}: direct recursion succeeds up to depth {dd}, native path `{shape}` up to {ds}"));
                        }
                        if is_native {
                            o.bump("probe.overflow_inside_native_callback", 1);
                        }
                    }
                    (None, None) if n <= 2 => {
                        // With a limit this small not even depth 0 fits on some paths: fine as long as it is an overflow error.
                    }
                    (a, b) => {
                        if n > 3 {
                            o.violate("depth-limit-not-enforced", &key, format!("limit {n}: thresholds direct={a:?} shape={b:?}"));
                        }
                    }
                }
                // Unbounded recursion: always a stack-overflow error, never a crash; evaluator reusable.
                let lim = if case["default_limit"].as_bool().unwrap_or(false) { None } else { Some(n) };
                let (r, probe) = run_depth(shape, lim, 1_000_000, n >= 50);
                if r != DepthOutcome::Overflow {
                    o.violate("depth-limit-not-enforced", &key, format!("unbounded recursion under limit {lim:?}: {r:?}"));
                }
                if let Some((pok, perr, pt)) = probe {
                    o.bump("probe.probe_evaluations", 1);
                    let pr = fresh_probe();
                    if !pok || pt != pr {
                        o.violate("probe-differs-after-limit", &key, format!("after overflow: probe ok={pok} `{perr}` {:?}", kit::diff_transcripts(&pr, &pt)));
                    }
                }
                // Many limit errors in a row on one evaluator: the depth threshold stays what it is.
                if shape == "direct" && case["default_limit"].as_bool().unwrap_or(false) {
                    // (a tick budget can be set only once per evaluator and counts cumulatively, so
                    // only cancellation can be repeated)
                    let by_budget = false;
                    let want = threshold(&mut o, "direct", 50, 40, 53, "depth/direct");
                    match depth_after_repeated_cancel(60, 53, by_budget) {
                        Ok(got) => {
                            o.bump("probe.repeated_limit_errors_then_depth", 1);
                            if got != want {
                                o.violate("depth-limit-not-enforced", "depth/after-repeated-limit-errors", format!("after 60 {} evaluations on one evaluator direct recursion succeeds up to depth {got:?}, on a fresh evaluator up to {want:?}", if by_budget { "over-budget" } else { "cancelled" }));
                            }
                        }
                        Err(e) if e.contains("did not fire") => o.bump("invalid_cells", 1),
                        Err(e) => o.violate("depth-limit-not-enforced", "depth/after-repeated-limit-errors", e),
                    }
                }
                // The limit configured (again) after the evaluator has already been used.
                if shape == "direct" && n >= 3 {
                    let first = if case["default_limit"].as_bool().unwrap_or(false) { None } else { Some(*[5u64, 10, 50, 80].get((n % 4) as usize).unwrap_or(&50)) };
                    let eff_first = first.unwrap_or(50);
                    let upto = eff_first.max(n) + 3;
                    match late_limit(first, n, upto) {
                        Err(e) if e == "REFUSED-AT-EVALUATION" => o.bump("probe.late_limit_refused_when_next_evaluation_starts", 1),
                        Err(e) => o.violate("depth-limit-not-enforced", "depth/late", format!("limit {first:?} then {n} after a first evaluation: {e}")),
                        Ok((accepted, got)) => {
                            o.bump(if accepted { "probe.late_limit_accepted" } else { "probe.late_limit_refused" }, 1);
                            let in_force = if accepted { n } else { eff_first };
                            let want = threshold(&mut o, "direct", in_force, 0, upto, "depth/direct");
                            // `upto` caps what can be observed.
                            if got != want {
                                o.violate(
                                    "depth-limit-not-enforced",
                                    "depth/late",
                                    format!("max call stack size {first:?} at first, then set to {n} after one evaluation (call {}): recursion succeeds up to depth {got:?}, a fresh evaluator with limit {in_force} up to {want:?}", if accepted { "accepted" } else { "refused" }),
                                );
                            }
                        }
                    }
                }
                // A large limit with deep-but-finite recursion must succeed.
                let (r2, _) = run_depth(shape, Some(5000), 1500, false);
                match r2 {
                    DepthOutcome::Ok(_) => o.bump("probe.deep_recursion_within_large_limit", 1),
                    other => {
                        if !is_native {
                            o.violate("within-limit-affected", &key, format!("limit 5000 depth 1500: {other:?}"));
                        }
                    }
                }
            }
            _ => {}
        }
        o.log_hash = kit::hash_lines(&log);
        o
    }

    fn shrink(&self, case: &Json) -> Vec<Json> {
        let mut out = Vec::new();
        if let Some(evals) = case["evals"].as_array() {
            if evals.len() > 1 {
                let mut c = case.clone();
                c["evals"] = json!([evals[evals.len() - 1]]);
                out.push(c);
            }
        }
        out
    }
}
