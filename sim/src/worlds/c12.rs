//! C12 — a container cannot be mutated while iterated and is released when iteration ends.
//!
//! The finite catalogue (container kind x iterating construct x mutating operation x alias x
//! way of leaving the loop x iteration at which it happens) is enumerated; `thorough` runs all
//! of it, `quick` a seeded slice. "Ways of leaving" include exit by fault at the i-th iteration:
//! an injected failure in the body, the failing mutation itself, a failing key= callback,
//! cancellation, tick budget and call-depth overflow, after which the host catches the error
//! and keeps evaluating on the same module.
//!
//! Oracle (lock model): while the construct is active every mutation through every alias fails
//! and leaves the container intact; as soon as the construct has been left the same mutation
//! succeeds and produces exactly what it produces on a never-iterated copy (reference run).

use std::sync::OnceLock;

use serde_json::Value as Json;
use serde_json::json;
use starlark::environment::Module;
use starlark::eval::Evaluator;

use crate::core::*;
use crate::kit;
use crate::rng::Rng;
use crate::rng::fnv;

pub struct C12;

#[derive(Clone, Debug)]
struct Spec {
    kind: &'static str,
    construct: &'static str,
    mutation: usize,
    alias: &'static str,
    exit: &'static str,
    at: usize,
}

const LIST_MUTS: &[&str] = &[
    "T.append(9)",
    "T.extend([8, 9])",
    "T.insert(0, 9)",
    "T.pop()",
    "T.remove(2)",
    "T.clear()",
    "T[0] = 9",
    "T[-1] = 8",
    "T.insert(len(T), 9)",
    "T.pop(0)",
];
const DICT_MUTS: &[&str] = &[
    "T[\"z\"] = 9",
    "T[\"a\"] = 9",
    "T.update({\"z\": 9})",
    "T.update([(\"y\", 8)], w = 7)",
    "T.setdefault(\"z\", 9)",
    "T.pop(\"a\")",
    "T.popitem()",
    "T.clear()",
];
const SET_MUTS: &[&str] = &[
    "T.add(9)",
    "T.discard(1)",
    "T.remove(1)",
    "T.pop()",
    "T.clear()",
    "T.update([9])",
];
/// Mutations only expressible on an indexed alias (augmented assignment).
const AUG_MUTS: &[(&str, &str)] = &[
    ("list", "H[0] += [9]"),
    ("dict", "H[0] |= {\"z\": 9}"),
    ("list", "H[0].append(H[0])"),
];

const ALIASES: &[&str] = &["same", "second", "element", "closure"];

/// Constructs in which the loop body is Starlark code at a position we control.
/// (name, is_def, supports break/return, lock multiplicity on C)
const LOOP_CONSTRUCTS: &[(&str, bool)] = &[
    ("for_module", false),
    ("for_def", true),
    ("nested_same", true),
    ("nested_outer", true),
    ("depth3", true),
    ("nested_module", false),
    // the same nests with a `return` written (not taken) in the inner loop before the body,
    // and with one after it
    ("nested_same_ret", true),
    ("nested_outer_ret", true),
    ("depth3_ret", true),
    ("nested_ret_after", true),
];
const EXPR_CONSTRUCTS: &[&str] = &[
    "list_compr",
    "dict_compr",
    "nested_compr",
    "compr_in_def",
    "compr_if",
    "sorted_key",
    "map_cb",
    "filter_cb",
    "max_key",
    "min_key",
    "host_iter_call",
];
/// Builtins that consume the container eagerly (no callback): only release is checkable.
const EAGER_CONSUMERS: &[&str] = &[
    "R = list(enumerate(C))",
    "R = list(zip(C, C))",
    "R = list(C)",
    "R = tuple(C)",
    "R = any(C)",
    "R = all(C)",
    "R = sorted(C)",
    "R = max(C)",
    "R = len(C)",
    "R = []\nR.extend(C)",
    "R = reversed(sorted(C))",
    "R = [x for x in C]",
    "R = set(C)",
    "R = {}\nR.update([(k, 1) for k in C])",
    "R = repr(C) + str(C)",
    "R = (1 in C)",
    "a, b, c = C",
    "R = iter_take(C, 1)",
    "R = iter_take(C, 0)",
    "R = iter_take(C, 99)",
];
/// Eager consumers that fail part-way through consuming C2 (a list with a poisoned element).
const FAILING_CONSUMERS: &[&str] = &[
    "R = dict(C2)",
    "R = {}\nR.update(C2)",
    "R = sorted(C2)",
    "R = max(C2)",
    "R = min(C2)",
    "R = \",\".join(C2)",
    "R = list(zip(C2, 5))",
    "R = [x + 1 for x in C2]",
    "R = {x: 1 for x in C2}",
    "R = set(C2)",
    "a, b = C2",
    "R = sum(C2)",
];

const LOOP_EXITS: &[&str] = &[
    "exhaust", "break", "return", "continue", "fault", "mutate", "cancel", "ticks", "depth", "natural",
];
const EXPR_EXITS: &[&str] = &["exhaust", "fault", "mutate", "cancel", "depth", "natural"];

fn muts(kind: &str) -> &'static [&'static str] {
    match kind.trim_end_matches("_empty").trim_end_matches("_big") {
        "list" => LIST_MUTS,
        "dict" => DICT_MUTS,
        _ => SET_MUTS,
    }
}

fn catalogue() -> &'static Vec<Spec> {
    static CAT: OnceLock<Vec<Spec>> = OnceLock::new();
    CAT.get_or_init(|| {
        let mut v = Vec::new();
        for kind in ["list", "dict", "set"] {
            let nm = muts(kind).len();
            for (construct, is_def) in LOOP_CONSTRUCTS {
                for exit in LOOP_EXITS {
                    if *exit == "return" && !is_def {
                        continue;
                    }
                    for at in 0..3 {
                        if (*exit == "exhaust" || *exit == "continue") && at != 0 {
                            continue;
                        }
                        for m in 0..nm {
                            for alias in ALIASES {
                                // The mutation/alias only matter fully for "mutate"; for other
                                // exits they select what is attempted *after* the loop.
                                if *exit != "mutate" && *exit != "exhaust" && *exit != "fault" && (m + at) % 3 != 0 {
                                    continue;
                                }
                                v.push(Spec { kind, construct, mutation: m, alias, exit, at });
                            }
                        }
                    }
                }
            }
            for construct in EXPR_CONSTRUCTS {
                if kind != "list" && (*construct == "sorted_key" || *construct == "max_key" || *construct == "min_key") && false {
                    continue;
                }
                for exit in EXPR_EXITS {
                    for at in 0..3 {
                        if *exit == "exhaust" && at != 0 {
                            continue;
                        }
                        for m in 0..nm {
                            for alias in ALIASES {
                                if *exit != "mutate" && *exit != "fault" && (m + at) % 3 != 0 {
                                    continue;
                                }
                                v.push(Spec { kind, construct, mutation: m, alias, exit, at });
                            }
                        }
                    }
                }
            }
            for (i, _) in EAGER_CONSUMERS.iter().enumerate() {
                for m in 0..nm {
                    v.push(Spec { kind, construct: "eager", mutation: m, alias: ALIASES[(i + m) % 4], exit: "consumed", at: i });
                }
            }
            for (i, _) in FAILING_CONSUMERS.iter().enumerate() {
                for m in 0..nm {
                    v.push(Spec { kind, construct: "eager_fail", mutation: m, alias: ALIASES[(i + m) % 4], exit: "consume_error", at: i });
                }
            }
            // A cancellation / tick budget noticed at a back edge of the loop over the container.
            for m in 0..nm {
                for construct in ["spin_back_edge", "spin_back_edge_module", "spin_back_edge_compr"] {
                    for exit in ["cancel", "ticks"] {
                        v.push(Spec { kind, construct, mutation: m, alias: ALIASES[m % 4], exit, at: 0 });
                    }
                }
            }
            // Inner loop over the same value has ended, outer still active: mutation must fail.
            for m in 0..nm {
                for alias in ALIASES {
                    for (ci, construct) in ["ret_expr_def", "ret_expr_nested", "ret_expr_compr"].iter().enumerate() {
                        v.push(Spec { kind, construct, mutation: m, alias, exit: "mutate", at: (m + ci) % 3 });
                    }
                    v.push(Spec { kind, construct: "after_inner", mutation: m, alias, exit: "mutate", at: 0 });
                    v.push(Spec { kind, construct: "after_inner_break", mutation: m, alias, exit: "mutate", at: 1 });
                }
            }
        }
        // Containers that are empty when the iteration starts (a list emptied by clear(), an empty
        // dict, an empty set): the body never runs, the only way of leaving is exhaustion - and the
        // container must be mutable afterwards like any other.
        for kind in ["list_empty", "dict_empty", "set_empty"] {
            let nm = muts(kind).len();
            for m in 0..nm {
                for (construct, _) in LOOP_CONSTRUCTS {
                    for alias in ALIASES {
                        v.push(Spec { kind, construct, mutation: m, alias, exit: "exhaust", at: 0 });
                    }
                }
                for construct in EXPR_CONSTRUCTS {
                    // max / min of an empty container is an error by definition.
                    if *construct == "max_key" || *construct == "min_key" {
                        continue;
                    }
                    v.push(Spec { kind, construct, mutation: m, alias: ALIASES[m % 4], exit: "exhaust", at: 0 });
                }
                for (i, c) in EAGER_CONSUMERS.iter().enumerate() {
                    if *c == "R = max(C)" || *c == "a, b, c = C" {
                        continue;
                    }
                    if (i + m) % 3 == 0 {
                        v.push(Spec { kind, construct: "eager", mutation: m, alias: ALIASES[(i + m) % 4], exit: "consumed", at: i });
                    }
                }
            }
        }
        // Containers above the size at which dicts and sets get a hash index (and lists have been
        // re-allocated a few times).
        for kind in ["list_big", "dict_big", "set_big"] {
            let nm = muts(kind).len();
            for m in 0..nm {
                for (construct, is_def) in LOOP_CONSTRUCTS {
                    for exit in ["exhaust", "break", "return", "mutate", "fault"] {
                        if exit == "return" && !is_def {
                            continue;
                        }
                        v.push(Spec { kind, construct, mutation: m, alias: ALIASES[m % 4], exit, at: m % 3 });
                    }
                }
                for construct in EXPR_CONSTRUCTS {
                    for exit in ["exhaust", "mutate"] {
                        v.push(Spec { kind, construct, mutation: m, alias: ALIASES[(m + 1) % 4], exit, at: m % 3 });
                    }
                }
            }
        }
        for (i, (kind, _)) in AUG_MUTS.iter().enumerate() {
            for (construct, _) in LOOP_CONSTRUCTS {
                for exit in ["exhaust", "mutate", "fault", "break"] {
                    for at in 0..3 {
                        v.push(Spec { kind, construct, mutation: 100 + i, alias: "element", exit, at });
                    }
                }
            }
            for construct in EXPR_CONSTRUCTS {
                for exit in ["mutate", "fault"] {
                    v.push(Spec { kind, construct, mutation: 100 + i, alias: "element", exit, at: 1 });
                }
            }
        }
        v
    })
}

fn init(kind: &str) -> &'static str {
    match kind {
        "list_big" => "[1, 2, 3] + [i + 100 for i in range(20)]",
        "dict_big" => "{\"a\": 1, \"b\": 2, \"c\": 3}\nC.update({(\"k%d\" % i): i for i in range(20)})",
        "set_big" => "set([1, 2, 3] + [i + 100 for i in range(20)])",
        "list_empty" => "[7, 8]\nC.clear()",
        "dict_empty" => "{}",
        "set_empty" => "set()",
        "list" => "[1, 2, 3]",
        "dict" => "{\"a\": 1, \"b\": 2, \"c\": 3}",
        _ => "set([1, 2, 3])",
    }
}

fn elem(kind: &str, at: usize) -> &'static str {
    match kind.trim_end_matches("_empty").trim_end_matches("_big") {
        "dict" => ["\"a\"", "\"b\"", "\"c\""][at % 3],
        _ => ["1", "2", "3"][at % 3],
    }
}

/// A second container that makes eager consumers fail part-way.
fn init2(kind: &str) -> &'static str {
    match kind.trim_end_matches("_empty").trim_end_matches("_big") {
        "list" => "[(1, 2), \"ab\", 3, None]",
        "dict" => "{(1, 2): 1, \"ab\": 2, 3: 3}",
        _ => "set([(1, 2), \"ab\", 3])",
    }
}

fn mutation_stmt(s: &Spec) -> String {
    if s.mutation >= 100 {
        return AUG_MUTS[s.mutation - 100].1.to_owned();
    }
    let m = muts(s.kind)[s.mutation];
    let target = match s.alias {
        "same" => "C",
        "second" => "A",
        "element" => "H[0]",
        _ => "c",
    };
    m.replace('T', target)
}

fn indent(s: &str, n: usize) -> String {
    let pad = " ".repeat(n);
    s.lines().map(|l| format!("{pad}{l}")).collect::<Vec<_>>().join("\n")
}

/// Programs of a spec: (setup, main, probe).
fn programs(s: &Spec) -> (String, String, String) {
    let m = mutation_stmt(s);
    let mut setup = String::new();
    setup += &format!("C = {}\nA = C\nH = [C]\nC2 = {}\n", init(s.kind), init2(s.kind));
    if s.alias == "closure" && s.mutation < 100 {
        setup += &format!("def mk():\n    c = C\n    def m():\n        {m}\n    return m\nmut = mk()\n");
    } else {
        setup += &format!("def mut():\n    {m}\n");
    }
    setup += "def deep(n):\n    return deep(n + 1) + 1\n";
    let k = elem(s.kind, s.at);
    // The action taken at the chosen iteration.
    let action = match s.exit {
        "fault" => "fault(\"body\")".to_owned(),
        "mutate" => "mut()".to_owned(),
        "cancel" => "cancel()\nfor _i in range(2500):\n    pass".to_owned(),
        "ticks" => "for _i in range(100000):\n    pass".to_owned(),
        "depth" => "deep(0)".to_owned(),
        "natural" => "noop(1 // 0)".to_owned(),
        _ => "noop()".to_owned(),
    };
    setup += &format!("def act(x):\n    if x == {k}:\n{}\n    return x\n", indent(&action, 8));
    setup += "emit(C)\n";
    let jump = match s.exit {
        "break" => format!("if x == {k}:\n    break\n"),
        "return" => format!("if x == {k}:\n    return 7\n"),
        "continue" => "if True:\n    continue\n".to_owned(),
        _ => String::new(),
    };
    let body = format!("{jump}act(x)");
    let main = match s.construct {
        "for_module" => format!("for x in C:\n{}\n", indent(&body, 4)),
        "for_def" => format!("def run():\n    for x in C:\n{}\nrun()\n", indent(&body, 8)),
        "nested_same" => format!(
            "def run():\n    for w in C:\n        for x in C:\n{}\nrun()\n",
            indent(&body, 12)
        ),
        "nested_outer" => format!(
            "def run():\n    for x in C:\n        for w in [10, 20]:\n{}\nrun()\n",
            indent(&body, 12)
        ),
        "depth3" => format!(
            "def run():\n    for z in [0]:\n        for w in A:\n            for x in C:\n{}\nrun()\n",
            indent(&body, 16)
        ),
        "nested_module" => format!("for w in [5, 6]:\n    for x in C:\n{}\n", indent(&body, 8)),
        "nested_same_ret" => format!(
            "def run():\n    for w in C:\n        for x in C:\n            if x == \"never\":\n                return 1\n{}\nrun()\n",
            indent(&body, 12)
        ),
        "nested_outer_ret" => format!(
            "def run():\n    for x in C:\n        for w in [10, 20]:\n            if w == \"never\":\n                return [w]\n{}\nrun()\n",
            indent(&body, 12)
        ),
        "depth3_ret" => format!(
            "def run():\n    for z in [0]:\n        for w in A:\n            for x in C:\n                if x == \"never\":\n                    return (x, w)\n{}\nrun()\n",
            indent(&body, 16)
        ),
        // the action comes after the inner loop (which holds an untaken return), in the outer loop's body
        "nested_ret_after" => format!(
            "def run():\n    for x in C:\n        for w in [10, 20]:\n            if w == \"never\":\n                return w\n{}\nrun()\n",
            indent(&body, 8)
        ),
        // the limit trips at a back edge of the loop over C itself: no call in the body
        "spin_back_edge" => "def run():\n    cancel()\n    for w in range(600):\n        for x in C:\n            pass\nrun()\n".to_owned(),
        "spin_back_edge_module" => "cancel()\nfor w in range(600):\n    for x in C:\n        pass\n".to_owned(),
        "spin_back_edge_compr" => "def run():\n    cancel()\n    return [x for w in range(600) for x in C]\nrun()\n".to_owned(),
        "list_compr" => "R = [act(x) for x in C]\n".to_owned(),
        "dict_compr" => "R = {x: act(x) for x in C}\n".to_owned(),
        "nested_compr" => "R = [act(x) for w in C for x in C]\n".to_owned(),
        "compr_in_def" => "def run():\n    return [[act(x), w] for x in C for w in range(2)]\nrun()\n".to_owned(),
        "compr_if" => "R = [x for x in C if act(x) != None]\n".to_owned(),
        "sorted_key" => "R = sorted(C, key = act)\n".to_owned(),
        "map_cb" => "R = list(map(act, C))\n".to_owned(),
        "filter_cb" => "R = list(filter(act, C))\n".to_owned(),
        "max_key" => "R = max(C, key = act)\n".to_owned(),
        "min_key" => "R = min(C, key = act)\n".to_owned(),
        "host_iter_call" => "R = iter_call(C, act)\n".to_owned(),
        "eager" => format!("{}\n", EAGER_CONSUMERS[s.at]),
        "eager_fail" => format!("{}\n", FAILING_CONSUMERS[s.at]),
        // The mutation is attempted while the returned expression is evaluated: the loop has not
        // been left yet.
        "ret_expr_def" => format!("def run():\n    for x in C:\n        if x == {k}:\n            return [mut(), 7]\n        noop(x)\nrun()\n"),
        "ret_expr_nested" => format!("def run():\n    for w in [1, 2]:\n        for x in C:\n            if x == {k}:\n                return (mut(), x)\nrun()\n"),
        "ret_expr_compr" => "def run():\n    for x in C:\n        return [mut() for _q in [1]]\nrun()\n".to_owned(),
        "after_inner" => format!("def run():\n    for w in C:\n        for x in C:\n            noop(x)\n        mut()\nrun()\n"),
        "after_inner_break" => format!("def run():\n    for w in C:\n        for x in C:\n            break\n        mut()\nrun()\n"),
        _ => unreachable!(),
    };
    // After a non-error exit the same evaluation goes on to mutate; the probe evaluation
    // (next evaluation on the same module) observes, mutates and observes again.
    let probe = if s.construct == "eager_fail" {
        // There the consumed container is C2: it must be mutable again.
        "emit(C)\nmut()\nemit(C)\nC2.clear()\nemit(C2)\n".to_owned()
    } else {
        "emit(C)\nmut()\nemit(C)\n".to_owned()
    };
    (setup, main, probe)
}

fn spec_json(s: &Spec) -> Json {
    let (setup, mut main, mut probe) = programs(s);
    let ref_probe = probe.clone();
    let error_exit = matches!(s.exit, "fault" | "mutate" | "cancel" | "ticks" | "depth" | "natural" | "consume_error");
    // For exits that are not errors, half of the cells attempt the mutation later in the
    // same evaluation, the other half in the following evaluation on the same module.
    let same_eval = !error_exit && (s.mutation + s.at) % 2 == 0;
    if same_eval {
        main += &probe;
        probe = String::new();
    }
    json!({
        "same_eval": same_eval, "ref_probe": ref_probe,
        "kind": s.kind, "construct": s.construct, "mutation": mutation_stmt(s), "alias": s.alias,
        "exit": s.exit, "at": s.at,
        "setup": setup, "main": main, "probe": probe,
    })
}

struct EvalOut {
    ok: bool,
    err_text: String,
    injected: bool,
}

fn eval_text<'v>(eval: &mut Evaluator<'v, '_, '_>, name: &str, text: &str) -> EvalOut {
    match kit::parse(name, text) {
        Err(e) => EvalOut { ok: false, err_text: format!("parse: {e}"), injected: false },
        Ok(ast) => match eval.eval_module(ast, kit::globals()) {
            Ok(_) => EvalOut { ok: true, err_text: String::new(), injected: false },
            Err(e) => {
                let t = kit::error_text(&e);
                let injected = t.contains("injected fault");
                EvalOut { ok: false, err_text: t, injected }
            }
        },
    }
}

fn configure<'v, 'a>(eval: &mut Evaluator<'v, 'a, '_>, exit: &str) {
    match exit {
        "cancel" => {
            let flag = kit::ctx(|c| c.cancel.clone());
            eval.set_check_cancelled(Box::new(move || flag.get()));
        }
        "ticks" => {
            let _ = eval.set_max_tick_count(1500);
        }
        "depth" => {
            let _ = eval.set_max_callstack_size(40);
        }
        _ => {}
    }
}

impl World for C12 {
    fn id(&self) -> &'static str {
        "C12"
    }

    fn describe(&self) -> Describe {
        Describe {
            level: "fault_enumeration",
            rule: "case = one cell of the finite catalogue {list,dict,set} x iterating construct (for at module level / in def / nested over the same value / depth 3, list+dict+nested+filtered comprehensions, sorted/min/max key=, map, filter, eager consumers) x mutating operation x alias (same name, second name, container element, closure) x way of leaving (exhaustion, break, return, continue, injected fault, the failing mutation itself, cancellation, tick budget, call-depth overflow, natural error, failing eager consumer) x iteration index 0..2; thorough enumerates the whole catalogue, quick a seeded slice; non-trivial = a lock was taken and the case exercised a mutation attempt under lock or a release; distinct = distinct (setup, main, probe) texts",
            sim_time_unit: "evaluations performed on the module under test",
            real_components: vec!["parser", "compiler", "bytecode loop instructions (InstrIter/Continue/Break/IterStop)", "list/dict/set values and their iterate/iter_stop protocol", "native consumers (sorted, map, filter, min, max, zip, ...)", "Evaluator limits (cancellation, tick budget, call-stack cap)"],
            stub_components: vec!["cancellation source (native cancel() flips the flag the evaluator polls)", "fault() native"],
            assumptions: vec!["a mutation attempted under lock must fail with an error and leave repr/len/str of the container unchanged", "reference = the same mutation on a never-iterated equal container"],
            exhaustive: false,
        }
    }

    fn budget(&self, tier: Tier) -> Budget {
        let n = catalogue().len() as u64;
        match tier {
            Tier::Quick => Budget { runs: n / 8, wall_s: 90, block: 400, recheck: 64, hang_s: 60 },
            Tier::Thorough => Budget { runs: n, wall_s: 1200, block: 1000, recheck: 256, hang_s: 60 },
        }
    }

    fn generate(&self, seed: u64, index: u64, tier: Tier) -> Json {
        let cat = catalogue();
        let n = cat.len() as u64;
        let i = match tier {
            Tier::Thorough => index % n,
            Tier::Quick => {
                // Seeded slice: a different eighth of the catalogue for each seed, spread evenly.
                let mut r = Rng::new(run_seed(seed, "C12", index));
                (index * 8 + r.below(8)) % n
            }
        };
        let mut j = spec_json(&cat[i as usize]);
        j["catalogue_index"] = json!(i);
        j["reuse_evaluator"] = json!(Rng::new(run_seed(seed, "C12env", index)).bool());
        j
    }

    fn extra_evidence(&self, _stats: &std::collections::BTreeMap<String, u64>) -> Json {
        json!({"catalogue_size": catalogue().len()})
    }

    fn execute(&self, case: &Json) -> Outcome {
        let mut o = Outcome::default();
        let setup = case["setup"].as_str().unwrap_or("");
        let main = case["main"].as_str().unwrap_or("");
        let probe = case["probe"].as_str().unwrap_or("");
        let exit = case["exit"].as_str().unwrap_or("");
        let construct = case["construct"].as_str().unwrap_or("");
        let key = format!("{construct}/{exit}");
        o.digest = fnv(format!("{setup}\u{0}{main}\u{0}{probe}").as_bytes());
        let mut log: Vec<String> = Vec::new();

        // Reference: the mutation on a never-iterated container.
        kit::ctx_reset();
        let ref_ok = Module::with_temp_heap(|module| {
            let mut eval = Evaluator::new(&module);
            let a = eval_text(&mut eval, "setup.star", setup);
            if !a.ok {
                return Err(format!("setup failed: {}", a.err_text));
            }
            let b = eval_text(&mut eval, "probe.star", case["ref_probe"].as_str().unwrap_or(probe));
            if !b.ok {
                return Err(format!("reference mutation failed: {}", b.err_text));
            }
            Ok(())
        });
        let reference = kit::take_transcript();
        if let Err(e) = ref_ok {
            // The catalogue cell is not meaningful (e.g. the mutation is invalid on its own).
            o.bump("invalid_cells", 1);
            o.bump(&format!("invalid.reference.{}", case["kind"].as_str().unwrap_or("")), 1);
            o.log_hash = fnv(e.as_bytes());
            return o;
        }
        // reference = [emit(C) in setup, emit(C) before, emit(C) after (, emit(C2))]
        log.extend(reference.iter().cloned());

        kit::ctx_reset();
        let reuse = case["reuse_evaluator"].as_bool().unwrap_or(false) && exit != "ticks";
        let expect_error = matches!(exit, "fault" | "mutate" | "cancel" | "ticks" | "depth" | "natural" | "consume_error");
        let mut verdict: Option<(String, String)> = None;
        Module::with_temp_heap(|module| {
            let mut eval = Evaluator::new(&module);
            configure(&mut eval, exit);
            let a = eval_text(&mut eval, "setup.star", setup);
            if !a.ok {
                verdict = Some(("harness".to_owned(), format!("setup failed under test: {}", a.err_text)));
                return;
            }
            if exit == "fault" {
                kit::ctx(|c| c.fail_at = c.fault_calls + 1);
            }
            let b = eval_text(&mut eval, "main.star", main);
            o.sim_time += 2;
            kit::ctx(|c| c.transcript.push(format!("main ok={} err={}", b.ok, kit::clip(&b.err_text))));
            if expect_error && b.ok {
                // The event that should end the iteration did not produce an error.
                match exit {
                    "mutate" => {
                        verdict = Some((
                            "mutation-under-lock-succeeded".to_owned(),
                            format!("mutation `{}` during iteration did not fail", case["mutation"]),
                        ));
                    }
                    _ => {
                        verdict = Some(("harness".to_owned(), format!("expected exit `{exit}` did not fire")));
                    }
                }
                return;
            }
            if !expect_error && !b.ok {
                verdict = Some((
                    "unexpected-error".to_owned(),
                    format!("main program failed: {}", kit::clip(&b.err_text)),
                ));
                return;
            }
            if exit == "mutate" && b.injected {
                verdict = Some(("harness".to_owned(), "fault injected in mutate case".to_owned()));
                return;
            }
            match exit {
                "fault" => o.bump("fault.injected_failure_in_body", 1),
                "mutate" => o.bump("fault.failing_mutation_under_lock", 1),
                "cancel" => o.bump("fault.cancellation", 1),
                "ticks" => o.bump("fault.tick_budget", 1),
                "depth" => o.bump("fault.call_depth_overflow", 1),
                "natural" => o.bump("fault.natural_error", 1),
                "consume_error" => o.bump("fault.failing_eager_consumer", 1),
                "break" => o.bump("probe.exit_break", 1),
                "return" => o.bump("probe.exit_return", 1),
                "continue" => o.bump("probe.exit_continue_exhaust", 1),
                _ => o.bump("probe.exit_exhaust", 1),
            }
            if probe.is_empty() {
                o.bump("probe.mutation_later_in_same_evaluation", 1);
                return;
            }
            o.bump("probe.mutation_in_following_evaluation", 1);
            // Host caught the error (if any); keep evaluating on the same module.
            let c = if reuse {
                kit::ctx(|c| c.cancel.set(false));
                eval_text(&mut eval, "probe.star", probe)
            } else {
                drop(eval);
                kit::ctx(|c| c.cancel.set(false));
                let mut eval2 = Evaluator::new(&module);
                eval_text(&mut eval2, "probe.star", probe)
            };
            o.sim_time += 1;
            if !c.ok {
                verdict = Some((
                    "lock-not-released".to_owned(),
                    format!("after leaving `{construct}` by `{exit}` the mutation failed: {}", kit::clip(&c.err_text)),
                ));
            }
        });
        let t = kit::take_transcript();
        log.extend(t.iter().cloned());
        o.nontrivial = true;
        if let Some((class, detail)) = verdict {
            if class == "harness" {
                o.bump("invalid_cells", 1);
                o.bump(&format!("invalid.{key}.{}", case["kind"].as_str().unwrap_or("")), 1);
                o.nontrivial = false;
            } else {
                o.violate(&class, &key, detail);
            }
        } else {
            // Content checks against the reference.
            // t = [setup emit, "main ok=..", probe emit before, probe emit after, (C2)]
            let emits: Vec<&String> = t.iter().filter(|l| !l.starts_with("main ok=")).collect();
            let r = &reference;
            if emits.len() != r.len() {
                o.violate("content-mismatch", &key, format!("transcript shape {:?} vs reference {:?}", emits, r));
            } else {
                if emits[1] != &r[1] {
                    o.violate(
                        "container-changed-under-lock",
                        &key,
                        format!("container after the iteration is `{}`, expected intact `{}`", emits[1], r[1]),
                    );
                } else if emits[2] != &r[2] {
                    o.violate(
                        "content-mismatch",
                        &key,
                        format!("after release the mutation gave `{}`, reference `{}`", emits[2], r[2]),
                    );
                } else if emits.len() > 3 && emits[3] != &r[3] {
                    o.violate("content-mismatch", &key, format!("C2 after release `{}` vs `{}`", emits[3], r[3]));
                }
            }
        }
        o.bump(&format!("probe.kind_{}", case["kind"].as_str().unwrap_or("")), 1);
        o.log_hash = kit::hash_lines(&log);
        o
    }

    fn shrink(&self, _case: &Json) -> Vec<Json> {
        // Catalogue cells are already minimal (5-15 lines of Starlark).
        Vec::new()
    }
}
