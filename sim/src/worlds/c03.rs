//! C03 — garbage collection is invisible and never loses or corrupts a live value.
//!
//! Workload: a generated module evaluated in 1..3 successive `eval_module` calls on one
//! `Module`, with embedder-side `Module::set` / `set_extra_value` in between.
//! Schedule: the GC decision at every safepoint (hook H1), from the schedule PRNG.
//! Fault model: every arena a collection leaves behind is poisoned (hook H2) and, in most
//! cases, quarantined, so a missed root reads poison deterministically.
//! Oracle: transcript(schedule) == transcript(never collect), byte for byte.

use std::collections::BTreeMap;

use serde_json::Value as Json;
use serde_json::json;
use starlark::environment::Module;
use starlark::eval::Evaluator;
use starlark::verif_hooks;
use starlark::verif_hooks::GcDecision;

use crate::core::*;
use crate::genprog::Features;
use crate::genprog::gen_module;
use crate::kit;
use crate::rng::Rng;
use crate::rng::fnv;

pub struct C03;

fn policy_decider(p: &Json, counters: std::rc::Rc<std::cell::Cell<(u64, u64)>>) -> Box<dyn FnMut(u64) -> GcDecision> {
    let kind = p["kind"].as_str().unwrap_or("never").to_owned();
    let k = p["k"].as_u64().unwrap_or(2).max(1);
    let phase = p["phase"].as_u64().unwrap_or(0);
    let pp = p["p"].as_u64().unwrap_or(50);
    let mut rng = Rng::new(p["seed"].as_u64().unwrap_or(1));
    let bits: Vec<u8> = p["bits"].as_str().unwrap_or("").bytes().collect();
    Box::new(move |n: u64| {
        let d = match kind.as_str() {
            "never" => GcDecision::Skip,
            "always" => GcDecision::Collect,
            "every" => {
                if (n + phase) % k == 0 {
                    GcDecision::Collect
                } else {
                    GcDecision::Skip
                }
            }
            "bernoulli" => {
                if rng.chance(pp, 100) {
                    GcDecision::Collect
                } else {
                    GcDecision::Skip
                }
            }
            "bits" => {
                if bits.get(n as usize) == Some(&b'1') {
                    GcDecision::Collect
                } else {
                    GcDecision::Skip
                }
            }
            _ => GcDecision::Default,
        };
        let (sp, gc) = counters.get();
        counters.set((sp + 1, gc + if d == GcDecision::Collect { 1 } else { 0 }));
        d
    })
}

/// Run the whole history of a case under one GC policy; returns (transcript, safepoints, collections).
pub fn run_history(case: &Json, policy: &Json) -> (Vec<String>, u64, u64) {
    kit::ctx_reset();
    let counters = std::rc::Rc::new(std::cell::Cell::new((0u64, 0u64)));
    verif_hooks::set_gc_decider(Some(policy_decider(policy, counters.clone())));
    let evals: Vec<Vec<String>> = case["evals"]
        .as_array()
        .map(|a| {
            a.iter()
                .map(|e| e.as_array().map(|s| s.iter().filter_map(|x| x.as_str().map(|x| x.to_owned())).collect()).unwrap_or_default())
                .collect()
        })
        .unwrap_or_default();
    let reuse_eval = case["reuse_evaluator"].as_bool().unwrap_or(false);
    let host_sets = case["host_sets"].as_bool().unwrap_or(true);
    let host_gc = case["host_gc"].as_bool().unwrap_or(false);
    let printer = kit::TranscriptPrinter;
    let frozen = Module::with_temp_heap(|module| {
        let heap = module.heap();
        if host_sets {
            // Embedder-set variables: reachable only through the module's slots.
            module.set("host_a", heap.alloc(vec![heap.alloc("host-string"), heap.alloc(12345678901234i64)]));
            module.set("host_b", heap.alloc(("tuple", 1, vec![1, 2, 3])));
            module.set_extra_value(heap.alloc(vec!["initial-extra"]));
        }
        let run_one = |eval: &mut Evaluator, idx: usize, stmts: &Vec<String>| {
            let text = stmts.join("\n") + "\n";
            let name = format!("prog{idx}.star");
            match kit::parse(&name, &text) {
                Err(e) => kit::ctx(|c| c.transcript.push(format!("parse-error {}", kit::error_text(&e)))),
                Ok(ast) => match eval.eval_module(ast, kit::globals()) {
                    Ok(v) => {
                        let line = format!("result {}", kit::encode(v));
                        kit::ctx(|c| c.transcript.push(line));
                    }
                    Err(e) => {
                        let line = format!("error[{}] {}", kit::error_kind(&e), kit::error_text(&e));
                        kit::ctx(|c| c.transcript.push(line));
                    }
                },
            }
        };
        let between = |idx: usize| {
            // Host-side observation and mutation between evaluations.
            for name in ["host_a", "host_b", "host_c"] {
                if let Some(v) = module.get(name) {
                    let line = format!("host-get {name} {}", kit::encode(v));
                    kit::ctx(|c| c.transcript.push(line));
                }
            }
            if let Some(v) = module.extra_value() {
                let line = format!("host-extra {}", kit::encode(v));
                kit::ctx(|c| c.transcript.push(line));
            }
            if host_sets {
                let v = heap.alloc(vec![heap.alloc(format!("host-c-{idx}")), heap.alloc(idx as i32)]);
                module.set("host_c", v);
            }
        };
        if reuse_eval {
            let mut eval = Evaluator::new(&module);
            eval.set_print_handler(&printer);
            // A profiler keeps values of the program too (function values, call trees): they are
            // roots like any other. The profile text itself holds timings and is not compared.
            let profile = match case["profile"].as_str().unwrap_or("") {
                "TimeFlame" => Some(starlark::eval::ProfileMode::TimeFlame),
                "HeapFlameAllocated" => Some(starlark::eval::ProfileMode::HeapFlameAllocated),
                "HeapSummaryAllocated" => Some(starlark::eval::ProfileMode::HeapSummaryAllocated),
                "HeapAllocated" => Some(starlark::eval::ProfileMode::HeapAllocated),
                "Statement" => Some(starlark::eval::ProfileMode::Statement),
                "Bytecode" => Some(starlark::eval::ProfileMode::Bytecode),
                _ => None,
            };
            if let Some(m) = &profile {
                let _ = eval.enable_profile(m);
            }
            for (i, stmts) in evals.iter().enumerate() {
                run_one(&mut eval, i, stmts);
                if host_gc && policy["kind"] != "never" {
                    // Host-triggered collection between evaluations (no frame is running; the
                    // harness holds no Value across this point).
                    unsafe { eval.garbage_collect() };
                    let (sp, gc) = counters.get();
                    counters.set((sp, gc + 1));
                }
                between(i);
            }
            if profile.is_some() {
                match eval.gen_profile() {
                    Ok(p) => {
                        let flame = p.gen_flame_data().ok().flatten().map(|s| s.lines().count()).unwrap_or(0);
                        let csv = p.gen_csv().map(|s| s.lines().count()).unwrap_or(0);
                        let _ = (flame, csv);
                        kit::ctx(|c| c.transcript.push("profile collected".to_owned()));
                    }
                    Err(e) => kit::ctx(|c| c.transcript.push(format!("profile error {e}"))),
                }
            }
        } else {
            for (i, stmts) in evals.iter().enumerate() {
                {
                    let mut eval = Evaluator::new(&module);
                    eval.set_print_handler(&printer);
                    run_one(&mut eval, i, stmts);
                }
                between(i);
            }
        }
        // Names of all module variables, observed through the host API.
        let mut names: Vec<String> = module.names().map(|n| n.as_str().to_owned()).collect();
        names.sort();
        for n in &names {
            if let Some(v) = module.get(n) {
                let line = format!("final {n} {}", kit::encode(v));
                kit::ctx(|c| c.transcript.push(line));
            }
        }
        module.freeze()
    });
    verif_hooks::set_gc_decider(None);
    match frozen {
        Ok(fm) => {
            let mut names: Vec<String> = fm.names().map(|n| n.as_str().to_owned()).collect();
            names.sort();
            for n in names {
                if let Ok(v) = fm.get_owned(&n) {
                    let line = format!("frozen {n} {}", kit::encode(v.as_ref().value()));
                    kit::ctx(|c| c.transcript.push(line));
                }
            }
            if let Some(v) = fm.extra_value_owned() {
                let line = format!("frozen-extra {}", kit::encode(v.as_ref().value()));
                kit::ctx(|c| c.transcript.push(line));
            }
        }
        Err(e) => kit::ctx(|c| c.transcript.push(format!("freeze-error {e:?}"))),
    }
    let (sp, gc) = counters.get();
    (kit::take_transcript(), sp, gc)
}

impl World for C03 {
    fn id(&self) -> &'static str {
        "C03"
    }

    fn describe(&self) -> Describe {
        Describe {
            level: "exploration",
            rule: "case = generated module (split into 1-3 evaluations on one Module, with embedder set()/extra_value in between) x 5-8 GC decision sequences over its safepoints; non-trivial = at least one collection was actually performed; distinct = distinct digest of (program text, decision policies)",
            sim_time_unit: "GC safepoints visited",
            real_components: vec!["parser", "compiler", "bytecode interpreter", "heap + copying GC (Heap::garbage_collect, Trace impls)", "Module/slots", "freezer"],
            stub_components: vec!["GC trigger (decider hook replaces the allocation threshold)", "print handler", "embedder natives (emit, intern, host_list, set_extra)"],
            assumptions: vec![
                "collections only happen at the safepoints the evaluator offers (PossibleGc); the decider hook performs exactly the evaluator's own collection",
                "poison word 0xDEADDEADDEADDEA8 over a freed arena makes any stale read fail or differ",
            ],
            exhaustive: false,
        }
    }

    fn budget(&self, tier: Tier) -> Budget {
        match tier {
            Tier::Quick => Budget { runs: 3000, wall_s: 60, block: 250, recheck: 48, hang_s: 60 },
            Tier::Thorough => Budget { runs: 400_000, wall_s: 1500, block: 500, recheck: 400, hang_s: 60 },
        }
    }

    fn init_process(&self) {
        verif_hooks::set_poison(true);
    }

    fn generate(&self, seed: u64, index: u64, _tier: Tier) -> Json {
        let root = Rng::new(run_seed(seed, "C03", index));
        let mut wl = root.fork("workload");
        let mut sch = root.fork("schedule");
        let mut env = root.fork("env");
        let feat = Features::draw(&mut wl);
        let n = 5 + wl.usize(36);
        let (mut stmts, _) = gen_module(&mut wl, feat, "", n, &[], true);
        let use_default = env.chance(1, 6);
        if use_default {
            // Ballast large enough to cross the evaluator's own threshold.
            let at = wl.usize(stmts.len() + 1);
            stmts.insert(at, "ballast = [[i, str(i), (i, i)] for i in range(2500)]".to_owned());
            let at2 = std::cmp::min(stmts.len(), at + 1 + wl.usize(4));
            stmts.insert(at2, "ballast = None".to_owned());
        }
        // Split into 1..3 evaluations.
        let parts = 1 + wl.usize(3);
        let mut cuts: Vec<usize> = (0..parts - 1).map(|_| wl.usize(stmts.len() + 1)).collect();
        cuts.sort();
        let mut evals = Vec::new();
        let mut prev = 0;
        for c in cuts {
            evals.push(stmts[prev..c].to_vec());
            prev = c;
        }
        evals.push(stmts[prev..].to_vec());
        let mut policies = vec![json!({"kind": "always"})];
        let np = 4 + sch.usize(4);
        for _ in 0..np {
            let p = match sch.below(4) {
                0 => json!({"kind": "every", "k": 2 + sch.below(6), "phase": sch.below(7)}),
                1 => json!({"kind": "bernoulli", "p": *sch.pick(&[10u64, 30, 70]), "seed": sch.next_u64() >> 12}),
                2 => json!({"kind": "every", "k": 1 + sch.below(3), "phase": sch.below(3)}),
                _ => json!({"kind": "bernoulli", "p": 50, "seed": sch.next_u64() >> 12}),
            };
            policies.push(p);
        }
        if use_default {
            policies.push(json!({"kind": "default"}));
        }
        json!({
            "evals": evals,
            "reuse_evaluator": env.bool(),
            "host_sets": env.chance(3, 4),
            "host_gc": env.chance(1, 3),
            "profile": *env.pick(&["", "", "", "TimeFlame", "HeapFlameAllocated", "HeapSummaryAllocated", "HeapAllocated", "Statement", "Bytecode"]),
            "quarantine": env.chance(2, 3),
            "policies": policies,
        })
    }

    fn execute(&self, case: &Json) -> Outcome {
        let mut o = Outcome::default();
        verif_hooks::set_poison(true);
        verif_hooks::set_quarantine(case["quarantine"].as_bool().unwrap_or(true));
        verif_hooks::census_enable(true);
        let (reference, sp0, _) = run_history(case, &json!({"kind": "never"}));
        let mut log = reference.clone();
        // How many evaluations of the history end in an error (they are part of the workload, but
        // an unintended error in a generated program silently cuts the rest of it off).
        for l in reference.iter().filter(|l| l.starts_with("error[")) {
            o.bump("evaluations_ending_in_error", 1);
            if std::env::var_os("VERIF_DEBUG_OBS").is_some() {
                let msg = l.lines().find(|x| x.starts_with("error: ")).unwrap_or(l.lines().next().unwrap_or(""));
                o.bump(&format!("err.{}", msg.chars().take(120).collect::<String>()), 1);
            }
        }
        o.bump("evaluations_total", case["evals"].as_array().map(|a| a.len()).unwrap_or(0) as u64);
        let text = case["evals"].to_string();
        o.digest = fnv(case.to_string().as_bytes());
        o.sim_time += sp0;
        o.bump("schedules", 1);
        let empty = Vec::new();
        let policies = case["policies"].as_array().unwrap_or(&empty);
        let mut total_gc = 0;
        for (pi, p) in policies.iter().enumerate() {
            let (t, sp, gc) = run_history(case, p);
            o.sim_time += sp;
            total_gc += gc;
            o.bump("schedules", 1);
            o.bump("fault.collections_forced", gc);
            if p["kind"] == "default" {
                o.bump("schedules_default_threshold", 1);
            }
            log.extend(t.iter().cloned());
            if let Some(d) = kit::diff_transcripts(&reference, &t) {
                o.violate(
                    "transcript-mismatch",
                    "gc-visible",
                    format!("policy #{pi} {p}: {d}"),
                );
                break;
            }
        }
        if total_gc > 0 {
            o.nontrivial = true;
            let mut feats: BTreeMap<&str, bool> = BTreeMap::new();
            feats.insert("probe.gc_with_cycle", text.contains("[\\\"self\\\"]") || text.contains("[\\\"back\\\"]") || has_self_append(&text));
            feats.insert("probe.gc_with_closure_cell", text.contains("def inner") || text.contains("def bump") || text.contains("def innermost"));
            feats.insert("probe.gc_with_extra_value", text.contains("set_extra") || case["host_sets"].as_bool().unwrap_or(false));
            feats.insert("probe.gc_with_host_set_var", case["host_sets"].as_bool().unwrap_or(false));
            feats.insert("probe.gc_with_interned_string", text.contains("intern("));
            feats.insert("probe.gc_with_default_arg_container", text.contains("b = []") || text.contains("d = {"));
            feats.insert("probe.gc_with_record_or_enum", text.contains("record(") || text.contains("enum("));
            feats.insert("probe.gc_with_bigint", text.contains("<<"));
            feats.insert("probe.gc_in_second_evaluation", case["evals"].as_array().map(|a| a.len() > 1).unwrap_or(false));
            feats.insert("probe.gc_with_bound_method_or_partial", text.contains(".append\\n") || text.contains("partial("));
            for (k, v) in feats {
                if v {
                    o.bump(k, 1);
                }
            }
        }
        o.bump("bytes_poisoned", 0);
        for (what, ty, n) in verif_hooks::census_take() {
            o.bump(&format!("census.{what}.{ty}"), n);
        }
        verif_hooks::census_enable(false);
        o.log_hash = kit::hash_lines(&log);
        o
    }

    fn shrink(&self, case: &Json) -> Vec<Json> {
        let mut out = Vec::new();
        let empty = Vec::new();
        let policies = case["policies"].as_array().unwrap_or(&empty);
        // One policy at a time.
        if policies.len() > 1 {
            for p in policies {
                let mut c = case.clone();
                c["policies"] = json!([p]);
                out.push(c);
            }
        }
        // Merge evaluations into one, drop host sets.
        let evals = case["evals"].as_array().unwrap_or(&empty);
        if evals.len() > 1 {
            let mut all = Vec::new();
            for e in evals {
                all.extend(e.as_array().cloned().unwrap_or_default());
            }
            let mut c = case.clone();
            c["evals"] = json!([all]);
            out.push(c);
        }
        if case["host_sets"].as_bool().unwrap_or(false) {
            let mut c = case.clone();
            c["host_sets"] = json!(false);
            out.push(c);
        }
        // Drop statements: halves, then single statements (from the end).
        for (ei, e) in evals.iter().enumerate() {
            let st = e.as_array().cloned().unwrap_or_default();
            let n = st.len();
            if n >= 4 {
                for (lo, hi) in [(n / 2, n), (0, n / 2)] {
                    let mut c = case.clone();
                    let kept: Vec<Json> = st.iter().enumerate().filter(|(i, _)| *i < lo || *i >= hi).map(|(_, s)| s.clone()).collect();
                    c["evals"][ei] = json!(kept);
                    out.push(c);
                }
            }
            for i in (0..n).rev() {
                let mut c = case.clone();
                let mut kept = st.clone();
                kept.remove(i);
                c["evals"][ei] = json!(kept);
                out.push(c);
            }
        }
        out
    }
}

fn has_self_append(text: &str) -> bool {
    // `x.append(x)` with the same identifier on both sides.
    for part in text.split(".append(") {
        let _ = part;
    }
    let bytes: Vec<&str> = text.split(".append(").collect();
    for w in bytes.windows(2) {
        let lhs = w[0].rsplit(|c: char| !(c.is_alphanumeric() || c == '_')).next().unwrap_or("");
        if !lhs.is_empty() && w[1].starts_with(&format!("{lhs})")) {
            return true;
        }
    }
    false
}
