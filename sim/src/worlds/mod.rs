pub mod c03;
pub mod c04;
pub mod c07;
pub mod c11;
pub mod c12;
pub mod c13;
pub mod c15;
pub mod c20;
