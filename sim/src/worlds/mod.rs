pub mod c03;
