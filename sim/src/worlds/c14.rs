//! C14 — evaluation is deterministic across runs, processes and memory layouts.
//!
//! The environment is the schedule. Each batch of generated programs ("observable everything":
//! print, repr/str of every value kind incl. functions/types/bound methods, dir(), hash(),
//! json, dict/set/struct iteration, failing programs with suggestions and call stacks, plus the
//! static type checker's and the linter's output for the same file) is executed in k child
//! processes whose **entire entropy is drawn from the seed**: getrandom/getentropy answers
//! (LD_PRELOAD shim => std RandomState keys, rand), ASLR switched off by
//! personality(ADDR_NO_RANDOMIZE) and replaced by controlled layout noise (dummy mmaps, env
//! padding shifting the stack, leaked warm-up mallocs), the thread the evaluation runs on, and
//! history noise (program order, warm-up evaluations). Transcripts must be byte-identical.

use std::collections::BTreeMap;
use std::collections::HashMap;
use std::collections::HashSet;
use std::io::Write;
use std::os::unix::process::CommandExt;
use std::process::Command;
use std::process::Stdio;

use serde_json::Value as Json;
use serde_json::json;
use starlark::analysis::AstModuleLint;
use starlark::environment::Module;
use starlark::eval::Evaluator;
use starlark::typing::AstModuleTypecheck;

use crate::core::*;
use crate::genprog::Features;
use crate::genprog::Gen;
use crate::genprog::Kind;
use crate::kit;
use crate::rng::Rng;
use crate::rng::fnv;

pub struct C14;

fn gen_observable(rng: &mut Rng) -> Vec<String> {
    let feat = Features::draw(rng);
    let n = 4 + rng.usize(16);
    let mut stmts;
    let vars: Vec<(String, Kind)>;
    {
        let mut g = Gen::new(rng, feat, "");
        g.allow_host = false;
        for _ in 0..n {
            g.step();
        }
        g.emit_all();
        stmts = g.stmts.clone();
        vars = g.vars.clone();
    }
    // Observable-everything tail.
    for (name, k) in vars.iter() {
        match k {
            Kind::Func1 | Kind::PureFunc1 | Kind::Func0 => stmts.push(format!("emit(repr({name}), str({name}), type({name}))\nprint({name})")),
            Kind::Str => stmts.push(format!("emit(hash({name}), {name}.split(\"a\"), dir({name})[:4])")),
            Kind::Dict => stmts.push(format!("emit(list({name}.keys()), list({name}.items()), [k for k in {name}])\nprint({name})")),
            Kind::Set => stmts.push(format!("emit([x for x in {name}], len({name}))")),
            Kind::Struct => stmts.push(format!("emit(dir({name}), {name})\nprint({name})")),
            Kind::RecordType | Kind::EnumType => stmts.push(format!("emit(repr({name}), dir({name}), type({name}))")),
            Kind::List => stmts.push(format!("emit(dir({name})[:3], {name}.append, {name}.index)")),
            _ => stmts.push(format!("emit(type({name}), dir({name})[:5])")),
        }
    }
    stmts.push("emit(dir(struct(b = 1, a = 2, c = 3)), struct(z = 1, y = [2], x = {\"k\": 3}), {\"b\": 1, \"a\": 2})".to_owned());
    stmts.push("emit(json.encode({\"z\": [1, 2.5, None, True], \"a\": {\"n\": \"s\"}}), json.decode(\"{\\\"q\\\": [1, {\\\"b\\\": 2, \\\"a\\\": 3}]}\"))".to_owned());
    stmts.push("emit(set([3, 1, 2, \"b\", \"a\"]), {x: 1 for x in [\"delta\", \"alpha\", \"charlie\", \"bravo\"]}, hash(\"alpha\"), hash(\"\"))".to_owned());
    stmts.push("emit(len, print, [].append, \"\".join, struct, record, enum, typing.Any, list[int], dict[str, int])".to_owned());
    // Set algebra with operands of different size / capacity, ties in sorted / max / min, values
    // that compare equal but print differently, dir() of every kind of value.
    stmts.push("sa = set([5, 3, 1, 4, 2, 9, 8, 7])\nsb = set([\"x\", 3, 99])\nsb.add(5)\nemit(sa | sb, sb | sa, sa & sb, sb & sa, sa - sb, sb - sa, sa ^ sb, sb ^ sa, sa.union([0]), sb.intersection(sa))".to_owned());
    stmts.push("emit(sorted([(1, \"b\"), (1, \"a\"), (0, \"z\"), (1, \"c\")], key = lambda t: t[0]), max([(1, \"b\"), (1, \"a\")], key = lambda t: t[0]), min([3, 1.0, 1, True], key = lambda t: 0), sorted([1, 1.0, 0, 0.0, -0.0, 2]), sorted([\"b\", \"a\", \"B\", \"\"]), {1: \"i\", 2.0: \"f\"})".to_owned());
    stmts.push("ns14 = namespace(zeta = 1, alpha = [2], mid = lambda: 3)\nRt14 = record(yy = int, xx = field(str, \"d\"), zz = field(list, []))\nrv14 = Rt14(yy = 1)\nEt14 = enum(\"q\", \"p\", \"r\")\nemit(dir(ns14), ns14, dir(rv14), rv14, dir(Et14), [e for e in Et14], Et14(\"p\"), dir(Et14(\"p\")), dir(Rt14), Rt14, dir(partial(len, [])), dir(len), dir(typing.Any))".to_owned());
    stmts.push("def kw14(**kw):\n    return [kw, list(kw.keys()), list(kw.items())]\ndef pos14(*a, z = 1, y = 2, **kw):\n    return (a, z, y, kw)\nemit(kw14(zeta = 1, alpha = 2, mid = 3, beta = 4, omega = 5, aa = 6, ab = 7, ac = 8, ad = 9), pos14(1, 2, q = 1, y = 5, b = 2), kw14(**{\"k2\": 1, \"k1\": 2}))".to_owned());
    stmts.push("emit(\"%r %s %d\" % ([1, \"a\"], {\"b\": (1,)}, 3), \"{z} {a}\".format(a = 1, z = [2]), str(1.5), repr(1e100), 7 // 2, 7 % -3, -7 // 2, 2.5 // 0.5, int(\"0x1f\", 16) if False else 31)".to_owned());
    stmts.push("load(\"lib14\", \"la\", lb_alias = \"lb\", \"lc\", \"ld\")\nemit(la, ld(2))".to_owned());
    // Record types with the same fields in an order that differs from program to program.
    {
        let mut f = vec!["port = int", "host = str", "secure = bool"];
        rng.shuffle(&mut f);
        stmts.push(format!("Rp14 = record({})\nrp14 = Rp14(port = 8080, host = \"h\", secure = True)\nemit(rp14.port + 1, rp14.host + \"x\", not rp14.secure, rp14, [getattr(rp14, a) for a in dir(rp14)][:3])", f.join(", ")));
    }
    // Never called: several ill-typed expressions in one def, bound to different variables, for the
    // static checker (errors are rendered in the order it returns them).
    stmts.push("def tc14(p: int, q: str):\n    v1 = p + \"s\"\n    v2 = len(p)\n    v3 = [1].nope\n    v4 = q * q\n    v5 = p.attr\n    v6 = q.nope2\n    v7 = {\"a\": 1}.missing_method()\n    return [v1, v2, v3, v4, v5, v6, v7]\ndef tc14b(p: list[int]) -> str:\n    w1 = p + 1\n    w2 = p.nope\n    return w1".to_owned());
    // Builtins called with several unexpected names.
    if rng.chance(1, 4) {
        stmts.push(format!("{}(zeta = 1, alpha = 2, mid = 3, beta = 4)", rng.pick(&["len", "repr", "str", "dir", "hash", "type", "list", "enum(\"a\")"])));
    }
    if rng.bool() {
        // A failing tail: error text with did-you-mean suggestion and call stack.
        let fails = [
            "def fail_deep(x):\n    return x.appennd(1)\ndef fail_outer(y):\n    return [fail_deep(z) for z in [y]]\nfail_outer([1])",
            "alpha_bravo_name = 1\nemit(alpha_bravo_nmae)",
            "emit(struct(field_one = 1, field_two = 2).field_tow)",
            "def f_args(first_param, second_param = 1):\n    return first_param\nf_args(1, secnd_param = 2)",
            "emit({\"k\": 1}[\"missing\"])",
            "emit([1, 2, 3].indx(2))",
            "emit(json.encod([1]))",
            "def rr(n):\n    return rr(n + 1)\nrr(0)",
            "emit(enum(\"a\", \"b\")(\"c\"))",
            "emit(record(x = int)(x = \"s\"))",
            "emit(1 + \"s\")",
            "fail(\"custom\", {\"b\": 1, \"a\": set([2, 1])})",
            // ties between equally distant candidates, several undefined names at once
            "tie_name_a = 1\ntie_name_b = 2\ntie_name_d = 3\nemit(tie_name_c)",
            "cand_xa = 1\ncand_xb = 2\ncand_xc = 3\ncand_xd = 4\ncand_xe = 5\ndef use_cand():\n    return cand_xz\nuse_cand()",
            "emit(undef_q1)\nemit(undef_q2, undef_q3)\nemit([undef_q4 for _i in range(2)])",
            "def never_called():\n    return [undef_r1, undef_r2, undef_r3, undef_r4, undef_r5]",
            "st_tie = struct(fld_a = 1, fld_b = 2, fld_d = 3)\nemit(st_tie.fld_c)",
            "def kw_tie(par_a = 1, par_b = 2, par_d = 3):\n    return par_a\nkw_tie(par_c = 5)",
            "load(\"nonexistent_mod.star\", \"zz1\", \"zz2\")\nemit(zz1)",
            // argument-binding errors that list names
            "def need3(aa, bb, cc, *, kk, jj):\n    return aa\nneed3(1)",
            "def need3(aa, bb, cc):\n    return aa\nneed3(1, 2, 3, dd = 4, ee = 5, ff = 6)",
            "def need3(aa, bb, cc):\n    return aa\nneed3(1, 2, 3, 4, 5)",
            "def need3(aa, bb, cc):\n    return aa\nneed3(1, aa = 2, bb = 3, cc = 4)",
            "emit(record(xa = int, xb = str, xd = int)(xa = 1, xc = 2))",
            "emit(record(xa = int, xb = str, xd = int)(xa = 1))",
            "emit(namespace(fa = 1, fb = 2, fd = 3).fc)",
            "emit(record(xa = int, xb = int, xd = int)(xa = 1, xb = 2, xd = 3).xc)",
            "emit(enum(\"va\", \"vb\", \"vd\").vc)",
            "load(\"lib14\", \"la\", \"lz\", \"ly\")",
            "emit(len.nope, [].nope, {}.kys, \"s\".uper)",
            "emit({}.kys())",
            "emit(\"s\".uper())",
            "emit(set([1]).ad(2))",
        ];
        stmts.push(fails[rng.usize(fails.len())].to_owned());
    }
    stmts
}

/// Deepest nesting whose comparison a fresh thread of this process accepts (0 = not measured).
static NEAR_LIMIT_DEPTH: std::sync::atomic::AtomicU64 = std::sync::atomic::AtomicU64::new(0);

/// Measure it on a helper thread (probing leaves that thread's guards in whatever state; the
/// thread is gone afterwards).
pub fn measure_near_limit_depth() {
    let d = std::thread::Builder::new()
        .stack_size(256 << 20)
        .spawn(|| {
            let accepts = |d: u64| -> bool {
                kit::ctx_reset();
                let text = format!("def nest(n):\n    z = []\n    for _i in range(n):\n        z = [z]\n    return z\nemit(nest({d}) == nest({d}))\n");
                // A fresh thread for every probe: a refused probe must not influence the next.
                std::thread::Builder::new()
                    .stack_size(256 << 20)
                    .spawn(move || {
                        Module::with_temp_heap(|module| {
                            let mut eval = Evaluator::new(&module);
                            match kit::parse("probe.star", &text) {
                                Ok(ast) => eval.eval_module(ast, kit::globals()).is_ok(),
                                Err(_) => false,
                            }
                        })
                    })
                    .map(|h| h.join().unwrap_or(false))
                    .unwrap_or(false)
            };
            // Binary search between 16 and 8192.
            let (mut lo, mut hi) = (16u64, 8192u64);
            if !accepts(lo) {
                return 0;
            }
            while lo + 1 < hi {
                let mid = (lo + hi) / 2;
                if accepts(mid) {
                    lo = mid;
                } else {
                    hi = mid;
                }
            }
            lo
        })
        .map(|h| h.join().unwrap_or(0))
        .unwrap_or(0);
    NEAR_LIMIT_DEPTH.store(d, std::sync::atomic::Ordering::Relaxed);
}

/// Evaluate one program and render everything observable about it.
pub fn observe_program(idx: usize, text: &str) -> Vec<String> {
    let t0 = std::time::Instant::now();
    let r = observe_program_inner(idx, text);
    if std::env::var_os("VERIF_TIMING").is_some() {
        eprintln!("observe_program {idx}: {:?}", t0.elapsed());
    }
    r
}

fn observe_program_inner(idx: usize, text: &str) -> Vec<String> {
    kit::ctx_reset();
    let name = format!("p{idx}.star");
    let printer = kit::TranscriptPrinter;
    let mut lines: Vec<String> = Vec::new();
    // A small frozen library for load().
    let lib = Module::with_temp_heap(|m| {
        {
            let mut e = Evaluator::new(&m);
            if let Ok(ast) = kit::parse("lib14.star", "la = [1, {\"k\": 2}]\nlb = \"b\"\nlc = struct(q = 1)\ndef ld(x):\n    return [x, la]\nlx = 1\nlw = 2\n") {
                let _ = e.eval_module(ast, kit::globals());
            }
        }
        m.freeze()
    });
    let loader = kit::MapLoader { modules: lib.ok().map(|l| [("lib14".to_owned(), l)].into_iter().collect()).unwrap_or_default() };
    // 1. Evaluation.
    Module::with_temp_heap(|module| {
        let mut eval = Evaluator::new(&module);
        eval.set_print_handler(&printer);
        eval.set_loader(&loader);
        match kit::parse(&name, text) {
            Err(e) => kit::ctx(|c| c.transcript.push(format!("parse-error {e}"))),
            Ok(ast) => match eval.eval_module(ast, kit::globals()) {
                Ok(v) => {
                    let l = format!("result {}", kit::encode(v));
                    kit::ctx(|c| c.transcript.push(l));
                }
                Err(e) => {
                    let l = format!("error[{}] {}", kit::error_kind(&e), kit::error_text(&e));
                    kit::ctx(|c| c.transcript.push(l));
                }
            },
        }
        let mut names: Vec<String> = module.names().map(|n| n.as_str().to_owned()).collect();
        let unsorted = names.clone();
        names.sort();
        kit::ctx(|c| c.transcript.push(format!("names-in-api-order {unsorted:?}")));
        drop(eval);
        // The frozen module as the embedder sees it: names, description and documentation in the
        // order the API returns them.
        if let Ok(fm) = module.freeze() {
            let fnames: Vec<String> = fm.names().map(|n| n.as_str().to_owned()).collect();
            let doc = fm.documentation();
            let members: Vec<String> = doc.members.keys().cloned().collect();
            let l1 = format!("frozen-names-in-api-order {fnames:?}");
            let l2 = format!("doc-members-in-api-order {members:?}");
            let l3 = format!("describe {}", fm.describe());
            kit::ctx(|c| c.transcript.extend([l1, l2, l3]));
        }
    });
    lines.extend(kit::take_transcript());
    // 1b. What this thread accepts does not depend on what it evaluated before: a comparison of
    // values nested as deeply as a fresh thread accepts (measured on a helper thread) still works.
    let d = NEAR_LIMIT_DEPTH.load(std::sync::atomic::Ordering::Relaxed);
    if d > 0 {
        kit::ctx_reset();
        let text = format!("def nest(n):\n    z = []\n    for _i in range(n):\n        z = [z]\n    return z\nemit(nest({d}) == nest({d}), len(json.encode(nest({})))  > 0)\n", d / 2);
        let ok = Module::with_temp_heap(|module| {
            let mut eval = Evaluator::new(&module);
            match kit::parse("near.star", &text) {
                Ok(ast) => eval.eval_module(ast, kit::globals()).is_ok(),
                Err(_) => false,
            }
        });
        let _ = kit::take_transcript();
        lines.push(format!("near-limit-compare depth-accepted-by-a-fresh-thread {}", if ok { "ok" } else { "REFUSED" }));
    }
    // 2. Static type checker: errors in the order returned, interface by sorted module names.
    if let Ok(ast) = kit::parse(&name, text) {
        let mut top_names: Vec<String> = Vec::new();
        for l in text.lines() {
            if let Some((lhs, _)) = l.split_once(" = ") {
                if lhs.chars().all(|c| c.is_alphanumeric() || c == '_') && !lhs.is_empty() {
                    top_names.push(lhs.to_owned());
                }
            }
            if let Some(rest) = l.strip_prefix("def ") {
                if let Some(n) = rest.split('(').next() {
                    top_names.push(n.to_owned());
                }
            }
        }
        top_names.sort();
        top_names.dedup();
        let (errors, _typemap, interface, approximations) = ast.typecheck(kit::globals(), &HashMap::new());
        for e in &errors {
            lines.push(format!("typecheck-error {e}"));
        }
        for n in &top_names {
            if let Some(t) = interface.get(n) {
                lines.push(format!("interface {n}: {t}"));
            }
        }
        for a in &approximations {
            lines.push(format!("approximation {}: {}", a.category, a.message));
        }
    }
    // 3. Linter: in the order returned.
    if let Ok(ast) = kit::parse(&name, text) {
        let g: HashSet<String> = kit::globals().names().map(|s| s.as_str().to_owned()).collect();
        for l in ast.lint(Some(&g)) {
            lines.push(format!("lint {} [{}] {}", l.location, l.short_name, l.problem));
        }
        for l in ast.lint(None) {
            lines.push(format!("lint-noglobals {} [{}]", l.location, l.short_name));
        }
    }
    lines
}

/// Child process entry: `verif-sim c14child <casefile> <config index>`.
pub fn child_main(case_path: &str, cfg_idx: usize) {
    let body: Json = serde_json::from_slice(&std::fs::read(case_path).expect("read case")).expect("parse case");
    let case = &body["case"];
    let cfg = &case["configs"][cfg_idx];
    // Controlled layout noise instead of ASLR.
    let mut lrng = Rng::new(cfg["layout_seed"].as_u64().unwrap_or(1));
    let mmaps = cfg["mmaps"].as_u64().unwrap_or(0);
    for _ in 0..mmaps {
        let len = 4096 * (1 + lrng.below(64)) as usize;
        unsafe {
            let p = libc::mmap(std::ptr::null_mut(), len, libc::PROT_READ | libc::PROT_WRITE, libc::MAP_PRIVATE | libc::MAP_ANONYMOUS, -1, 0);
            if p != libc::MAP_FAILED {
                *(p as *mut u8) = 1;
            }
        }
    }
    let mallocs = cfg["mallocs"].as_u64().unwrap_or(0);
    for _ in 0..mallocs {
        let v: Vec<u8> = vec![7; 1 + lrng.below(5000) as usize];
        std::mem::forget(v);
    }
    // Probe that the entropy seam works: the order of a std HashSet depends on RandomState.
    let hs: std::collections::HashSet<u64> = (0..32).collect();
    let order: Vec<u64> = hs.iter().copied().collect();
    println!("{}", json!({"probe": "hashset_order", "digest": fnv(format!("{order:?}").as_bytes()), "stack_addr": (&order as *const _ as usize)}));
    let programs: Vec<String> = case["programs"].as_array().map(|a| a.iter().filter_map(|x| x.as_str().map(|s| s.to_owned())).collect()).unwrap_or_default();
    let mut order_idx: Vec<usize> = (0..programs.len()).collect();
    let mut orng = Rng::new(cfg["order_seed"].as_u64().unwrap_or(1));
    orng.shuffle(&mut order_idx);
    let warmups = cfg["warmups"].as_u64().unwrap_or(0);
    let thread_mode = cfg["thread"].as_u64().unwrap_or(0);
    measure_near_limit_depth();
    let work = move || {
        // History noise: unrelated evaluations first (type ids, interner, chunk cache, lazies).
        for w in 0..warmups {
            let _ = observe_program(9000 + w as usize, &format!("Rw = record(a = int)\nEw = enum(\"x\", \"y\")\nw = [Rw(a = {w}), Ew(\"x\"), {{\"k\": [{w}] * {}}}]\nemit(w)\n", 1 + w % 7));
            // ... and evaluations that end in errors of the kinds that touch thread-local guards.
            let _ = observe_program(9500 + w as usize, "def nest(n):\n    z = []\n    for _i in range(n):\n        z = [z]\n    return z\nemit(nest(5000) == nest(5000))\n");
            let _ = observe_program(9600 + w as usize, "cy = [1]\ncy.append(cy)\nemit(json.encode(cy))\n");
            let _ = observe_program(9700 + w as usize, "Rq = record(secure = bool, port = int, host = str)\nemit(Rq(port = 1, host = \"w\", secure = False).port + 1)\n");
        }
        let out = std::io::stdout();
        for i in order_idx {
            let lines = observe_program(i, &programs[i]);
            let mut o = out.lock();
            let _ = writeln!(o, "{}", json!({"prog": i, "lines": lines}));
        }
    };
    match thread_mode {
        0 => work(),
        n => {
            // Evaluate on the n-th spawned thread.
            for _ in 1..n {
                let _ = std::thread::spawn(|| ()).join();
            }
            std::thread::Builder::new().stack_size(64 << 20).spawn(work).unwrap().join().unwrap();
        }
    }
}

fn shim_path() -> std::path::PathBuf {
    let exe = std::env::current_exe().expect("current_exe");
    // <target>/release/verif-sim -> <target>/entropy_shim.so
    exe.parent().and_then(|p| p.parent()).map(|p| p.join("entropy_shim.so")).unwrap_or_default()
}

struct ChildOut {
    progs: BTreeMap<usize, Vec<String>>,
    hash_order: u64,
    stack_addr: u64,
    ok: bool,
    status: String,
}

fn run_child(case_path: &std::path::Path, cfg_idx: usize, cfg: &Json) -> ChildOut {
    let mut cmd = Command::new(std::env::current_exe().expect("exe"));
    cmd.arg("c14child").arg(case_path).arg(cfg_idx.to_string());
    cmd.env_clear();
    cmd.env("LD_PRELOAD", shim_path());
    cmd.env("VERIF_ENTROPY", cfg["entropy"].as_u64().unwrap_or(1).to_string());
    cmd.env("VERIF_PAD", "x".repeat(cfg["env_pad"].as_u64().unwrap_or(0) as usize));
    cmd.stdin(Stdio::null()).stdout(Stdio::piped()).stderr(Stdio::null());
    unsafe {
        cmd.pre_exec(|| {
            // Remove the kernel's address-space randomisation: layout becomes a function of the noise we add.
            libc::personality(libc::ADDR_NO_RANDOMIZE as libc::c_ulong);
            Ok(())
        });
    }
    let out = cmd.output();
    let mut res = ChildOut { progs: BTreeMap::new(), hash_order: 0, stack_addr: 0, ok: false, status: String::new() };
    match out {
        Err(e) => res.status = format!("spawn failed: {e}"),
        Ok(out) => {
            res.ok = out.status.success();
            res.status = format!("{:?}", out.status);
            for line in String::from_utf8_lossy(&out.stdout).lines() {
                if let Ok(j) = serde_json::from_str::<Json>(line) {
                    if j["probe"] == "hashset_order" {
                        res.hash_order = j["digest"].as_u64().unwrap_or(0);
                        res.stack_addr = j["stack_addr"].as_u64().unwrap_or(0);
                    } else if let Some(i) = j["prog"].as_u64() {
                        let lines: Vec<String> = j["lines"].as_array().map(|a| a.iter().filter_map(|x| x.as_str().map(|s| s.to_owned())).collect()).unwrap_or_default();
                        res.progs.insert(i as usize, lines);
                    }
                }
            }
        }
    }
    res
}

impl World for C14 {
    fn id(&self) -> &'static str {
        "C14"
    }

    fn describe(&self) -> Describe {
        Describe {
            level: "exploration",
            rule: "case = batch of 24 generated 'observable everything' programs (about half end in a failure with suggestion/call stack) x k child processes (3 quick, 6 thorough) whose entropy is seed-controlled: getrandom stream (=> std RandomState), ASLR off + seeded mmap/malloc/env-padding layout noise, evaluation on main / 1st / n-th spawned thread, seeded program order and warm-up evaluations; per program the transcript (print/emit/result/error text, module names in API order, type-checker errors + interface + approximations, lints) of every configuration must be byte-identical; non-trivial = the configurations really differed (different std HashSet order or different stack address); distinct = digest of (programs, configurations)",
            sim_time_unit: "(program, configuration) evaluations in child processes",
            real_components: vec!["whole interpreter, type checker and linter in separate OS processes"],
            stub_components: vec!["OS entropy source (LD_PRELOAD getrandom/getentropy shim)", "address-space layout (personality(ADDR_NO_RANDOMIZE) + seeded noise)", "thread placement and evaluation history"],
            assumptions: vec!["the harness renders diagnostics in the order the API returns them and adds no ordering of its own, except that Interface (lookup-only API) is queried for module names in sorted order"],
            exhaustive: false,
        }
    }

    fn budget(&self, tier: Tier) -> Budget {
        match tier {
            Tier::Quick => Budget { runs: 96, wall_s: 120, block: 6, recheck: 6, hang_s: 180 },
            Tier::Thorough => Budget { runs: 20_000, wall_s: 1800, block: 25, recheck: 16, hang_s: 180 },
        }
    }

    fn generate(&self, seed: u64, index: u64, tier: Tier) -> Json {
        let root = Rng::new(run_seed(seed, "C14", index));
        let mut wl = root.fork("workload");
        let mut env = root.fork("env");
        let programs: Vec<String> = (0..24).map(|_| gen_observable(&mut wl).join("\n") + "\n").collect();
        let k = if tier == Tier::Thorough { 6 } else { 3 };
        let configs: Vec<Json> = (0..k)
            .map(|i| {
                json!({
                    "entropy": env.next_u64() >> 16,
                    "mmaps": if i == 0 { 0 } else { env.below(40) },
                    "mallocs": if i == 0 { 0 } else { env.below(300) },
                    "env_pad": if i == 0 { 0 } else { env.below(9000) },
                    "layout_seed": env.next_u64() >> 16,
                    "thread": if i == 0 { 0 } else { env.below(4) },
                    "order_seed": env.next_u64() >> 16,
                    "warmups": if i == 0 { 0 } else { env.below(6) },
                })
            })
            .collect();
        json!({"programs": programs, "configs": configs})
    }

    fn execute(&self, case: &Json) -> Outcome {
        let mut o = Outcome::default();
        o.digest = fnv(case.to_string().as_bytes());
        let dir = std::path::PathBuf::from(format!("{}/target/scratch", out_root()));
        let _ = std::fs::create_dir_all(&dir);
        let path = dir.join(format!("c14-{}-{:x}.json", std::process::id(), o.digest));
        std::fs::write(&path, serde_json::to_vec(&json!({"property": "C14", "case": case})).unwrap()).expect("write case");
        let empty = Vec::new();
        let configs = case["configs"].as_array().unwrap_or(&empty);
        let nprog = case["programs"].as_array().map(|a| a.len()).unwrap_or(0);
        let outs: Vec<ChildOut> = configs.iter().enumerate().map(|(i, c)| run_child(&path, i, c)).collect();
        let _ = std::fs::remove_file(&path);
        let mut log: Vec<String> = Vec::new();
        for (i, c) in outs.iter().enumerate() {
            if !c.ok || c.progs.len() != nprog {
                o.violate("crash", "child-crash", format!("configuration #{i} {}: child ended with {} after {} of {nprog} programs", configs[i], c.status, c.progs.len()));
            }
        }
        let orders: std::collections::BTreeSet<u64> = outs.iter().map(|c| c.hash_order).collect();
        let stacks: std::collections::BTreeSet<u64> = outs.iter().map(|c| c.stack_addr).collect();
        o.bump("probe.distinct_std_hash_orders", orders.len() as u64);
        o.bump("probe.distinct_stack_addresses", stacks.len() as u64);
        o.nontrivial = orders.len() > 1 || stacks.len() > 1;
        if o.violation.is_none() {
            'outer: for p in 0..nprog {
                let a = &outs[0].progs[&p];
                o.sim_time += outs.len() as u64;
                let joined = a.join("\n");
                if joined.contains("error[") {
                    o.bump("probe.programs_failing_with_error_text", 1);
                }
                if joined.contains("did you mean") {
                    o.bump("probe.programs_with_suggestion", 1);
                }
                if joined.contains("typecheck-error") {
                    o.bump("probe.programs_with_checker_diagnostic", 1);
                }
                if joined.contains("\nlint ") {
                    o.bump("probe.programs_with_lint", 1);
                }
                log.extend(a.iter().cloned());
                for (ci, c) in outs.iter().enumerate().skip(1) {
                    if let Some(d) = kit::diff_transcripts(a, &c.progs[&p]) {
                        let kind = if d.contains("typecheck") || d.contains("interface") || d.contains("approximation") {
                            "typecheck"
                        } else if d.contains("lint") {
                            "lint"
                        } else {
                            "eval"
                        };
                        o.violate(
                            "nondeterministic-output",
                            kind,
                            format!("program {p}: configuration #0 {} vs #{ci} {}: {d}", configs[0], configs[ci]),
                        );
                        break 'outer;
                    }
                }
            }
        }
        o.log_hash = kit::hash_lines(&log);
        o
    }

    fn shrink(&self, case: &Json) -> Vec<Json> {
        let mut out = Vec::new();
        let empty = Vec::new();
        let progs = case["programs"].as_array().unwrap_or(&empty);
        let cfgs = case["configs"].as_array().unwrap_or(&empty);
        if progs.len() > 1 {
            for p in progs {
                let mut c = case.clone();
                c["programs"] = json!([p]);
                out.push(c);
            }
        }
        if cfgs.len() > 2 {
            for i in 1..cfgs.len() {
                let mut c = case.clone();
                c["configs"] = json!([cfgs[0], cfgs[i]]);
                out.push(c);
            }
        }
        if progs.len() == 1 {
            let lines: Vec<&str> = progs[0].as_str().unwrap_or("").split('\n').collect();
            // Statements are separated by newlines but may span several lines: drop from the end.
            for cut in (1..lines.len()).rev() {
                let mut c = case.clone();
                c["programs"] = json!([lines[..cut].join("\n") + "\n"]);
                out.push(c);
            }
        }
        // Neutralise noise dimensions one at a time.
        for i in 1..cfgs.len() {
            for k in ["mmaps", "mallocs", "env_pad", "thread", "warmups"] {
                if cfgs[i][k].as_u64().unwrap_or(0) != 0 {
                    let mut c = case.clone();
                    c["configs"][i][k] = json!(0);
                    out.push(c);
                }
            }
        }
        out
    }
}
