//! C07 — evaluation is total and recoverable: a value or a located error, never a crash.
//!
//! Simulated here: *histories*. One `Module`, one `Evaluator` kept alive for 2..7 evaluations
//! (`eval_module` / `eval_function`), programs being nests of calls, loops, comprehensions and
//! native callbacks with `fault(site)` at every level. The fault plan fails the f-th dynamic
//! `fault()` invocation for enumerated f (failure-point enumeration); other fault kinds are
//! natural failures (index/key/type/zero-division/arity/scope/parse), ill-typed builtin calls
//! over an extreme-value catalogue, cancellation, tick budget and call-depth overflow.
//!
//! Oracles: (i) no panic/abort/crash; (ii) every error has a span inside an involved file on
//! char boundaries and a resolvable call stack; (iii) a failing evaluation's transcript is a
//! prefix of its fault-free transcript; (iv) after a failure `call_stack_count() == 0` and an
//! unrelated probe program evaluated on the same evaluator/module gives the transcript it
//! gives on a fresh evaluator and module; host API (`names`, `get`, freeze + load) does not
//! panic; (v) the remaining history behaves identically whether the evaluator is re-used or a
//! fresh evaluator is created for every evaluation (evaluator re-use is unobservable).

use serde_json::Value as Json;
use serde_json::json;
use starlark::environment::Module;
use starlark::eval::Evaluator;

use crate::core::*;
use crate::kit;
use crate::rng::Rng;
use crate::rng::fnv;

pub struct C07;

const PROBE: &str = r#"
def p_fib(n):
    if n < 2:
        return n
    return p_fib(n - 1) + p_fib(n - 2)
def p_nest(k):
    out = []
    for i in range(k):
        row = [j * i for j in range(3) if j != 1]
        out.append(sorted(row, key = lambda q: -q))
    return {"rows": out, "n": len(out)}
p_l = [1, 2, 3]
p_l.append(p_fib(7))
p_d = {"a": p_l}
p_d["b"] = p_nest(3)
emit(p_l, p_d, p_fib(10), [x for x in map(lambda y: y + 1, p_l)])
emit(apply(p_fib, 6), "%s|%d" % ("s", 3), "{}".format(p_d["a"]))
"#;

const EXTREME_ARGS: &[&str] = &[
    "0", "1", "-1", "7", "2147483647", "-2147483648", "(1 << 31)", "(1 << 63)", "-(1 << 63)", "(1 << 64)",
    "(1 << 200)", "1.5", "-0.0", "float(\"nan\")", "float(\"inf\")", "None", "True", "False", "\"\"", "\"a\"",
    "\"abc\" * 300", "\"h\\u00e9\\u65e5\"", "[]", "[1, 2, 3]", "[[]]", "SELF_L", "{}", "{\"k\": 1}", "SELF_D",
    "()", "(1,)", "(1, \"a\", None)", "set()", "set([1, 2])", "range(0)", "range(5)", "range(100000)",
    "struct(a = 1)", "len", "lambda *a, **k: a", "REC", "EN", "\"%s%s\"", "[None] * 1000", "b_unknown",
];

const METHOD_RECEIVERS: &[&str] = &[
    "\"hello world\"", "\"\"", "[3, 1, 2]", "[]", "{\"a\": 1, \"b\": 2}", "{}", "set([1, 2, 3])", "(1, 2)", "SELF_L", "SELF_D", "range(3)", "REC(x = 1)", "EN(\"a\")", "1", "1.5",
];

/// Build the nest program for one evaluation of a history.
fn gen_nest(rng: &mut Rng, idx: usize, prev_funcs: &[String]) -> (String, Vec<String>) {
    let nf = 1 + rng.usize(3);
    let mut text = String::new();
    let mut funcs: Vec<String> = Vec::new();
    if idx == 0 {
        text += "S = {\"n\": 0, \"log\": []}\n";
    }
    let _ = idx;
    for k in 0..nf {
        let name = format!("n{idx}_{k}");
        let callee: Option<String> = {
            let mut all: Vec<String> = funcs.clone();
            all.extend(prev_funcs.iter().cloned());
            if all.is_empty() || rng.chance(1, 4) { None } else { Some(all[rng.usize(all.len())].clone()) }
        };
        let call = |arg: &str| match &callee {
            Some(c) => format!("{c}({arg})"),
            None => format!("[{arg}]"),
        };
        let dflt = if rng.chance(1, 4) { format!(", d = (fault(\"{name}.default\"), [])[1]") } else { String::new() };
        let mut body = format!("def {name}(x{dflt}):\n    fault(\"{name}.enter\")\n    acc = []\n");
        let nb = 1 + rng.usize(4);
        for b in 0..nb {
            let site = format!("{name}.b{b}");
            let blk = match rng.below(9) {
                0 => format!("for v in range(2):\n    fault(\"{site}\")\n    acc.append({})", call("v")),
                1 => format!("acc.append([{} for w in range(2) if fault(\"{site}\") == None])", call("w")),
                2 => format!("acc.append(sorted([3, 1, 2], key = lambda q: (fault(\"{site}\"), q)[1]))"),
                3 => format!("acc.append(list(map(lambda q: (fault(\"{site}\"), {})[1], range(2))))", call("q")),
                4 => format!("acc.append(apply(lambda q: (fault(\"{site}\"), {})[1], x))", call("q")),
                5 => format!("if x % 2 == 0:\n    fault(\"{site}\")\n    S[\"n\"] = S[\"n\"] + 1\nelse:\n    S[\"log\"].append(x)"),
                6 => format!("for v in [1, 2]:\n    for w in {{\"a\": 1, \"b\": 2}}:\n        fault(\"{site}\")\n        if w == \"b\":\n            break\n        acc.append((v, w))"),
                7 => format!("acc.append({{k: (fault(\"{site}\"), k)[1] for k in [\"p\", \"q\"]}})"),
                _ => format!("emit(\"{site}\", x, len(acc))\nfault(\"{site}\")"),
            };
            for line in blk.lines() {
                body += &format!("    {line}\n");
            }
        }
        body += &format!("    fault(\"{name}.exit\")\n    return [x, acc]\n");
        text += &body;
        funcs.push(name);
    }
    let top = funcs.last().unwrap().clone();
    match rng.below(4) {
        0 => text += &format!("for t in range(2):\n    emit({top}(t))\n"),
        1 => text += &format!("emit([{top}(t) for t in range(2)])\n"),
        _ => text += &format!("emit({top}({}))\n", rng.range(0, 3)),
    }
    text += "emit(S)\n";
    (text, funcs)
}

/// (failing program, follow-up evaluated later on the same module): after the failure the object
/// involved is repaired / the function is called properly, and the result must be what a fresh
/// equal object gives. State that a failed operation leaves behind outside the evaluator
/// (thread-local guards, caches keyed by the object) shows up here.
const RETRY_PAIRS: &[(&str, &str)] = &[
    (
        "JX0 = [1, {\"k\": [2, len]}]\nemit(json.encode(JX0))",
        "JX0[1][\"k\"].pop()\nexpect_eq(json.encode(JX0), json.encode([1, {\"k\": [2]}]), \"json after failed encode\")\nexpect_eq(json.encode(JX0[1]), \"{\\\"k\\\":[2]}\", \"json inner\")",
    ),
    (
        "CY0 = [1]\nCY0.append(CY0)\nemit(json.encode(CY0))",
        "CY0.pop()\nexpect_eq(json.encode(CY0), \"[1]\", \"json after cycle\")\nexpect_eq(repr(CY0), \"[1]\", \"repr after cycle\")",
    ),
    (
        "JD0 = {\"a\": {1: 2}}\nemit(json.encode(JD0))",
        "JD0[\"a\"] = {\"b\": 2}\nexpect_eq(json.encode(JD0), json.encode({\"a\": {\"b\": 2}}), \"json after bad key\")",
    ),
    (
        "JS0 = struct(a = [1, lambda: 1])\nemit(json.encode(JS0))",
        "expect_eq(json.encode(JS0.a[:1]), \"[1]\", \"json slice after failed struct\")\nexpect_eq(repr(JS0.a[0]), \"1\", \"repr\")",
    ),
    (
        "SX0 = [3, 1, 2]\nemit(sorted(SX0, key = lambda x: 1 // 0))",
        "SX0.append(0)\nexpect_eq(sorted(SX0), [0, 1, 2, 3], \"sorted after failing key\")\nexpect_eq(SX0, [3, 1, 2, 0], \"list after failing key\")",
    ),
    (
        "def ty0(x: int) -> int:\n    return x + 1\nemit(ty0(\"s\"))",
        "expect_eq(ty0(3), 4, \"typed def after a rejected call\")",
    ),
    (
        "def rc0(n):\n    return 0 if n == 0 else 1 + rc0(n - 1)\nemit(rc0(100000))",
        "expect_eq(rc0(30), 30, \"recursion after overflow\")",
    ),
    (
        "PX0 = {\"a\": [1]}\ndef px_f(d):\n    for k in d:\n        fail(\"in loop\")\npx_f(PX0)",
        "PX0[\"b\"] = 2\nexpect_eq(PX0, {\"a\": [1], \"b\": 2}, \"dict after a failed loop\")",
    ),
    (
        "FX0 = \"{} {}\"\nemit(FX0.format(1))",
        "expect_eq(FX0.format(1, 2), \"1 2\", \"format after failure\")\nexpect_eq(\"%s-%s\" % (1, 2), \"1-2\", \"percent\")",
    ),
];

fn gen_retry(rng: &mut Rng, idx: usize) -> (String, String) {
    let (a, b) = RETRY_PAIRS[rng.usize(RETRY_PAIRS.len())];
    (format!("emit(\"retry-fail {idx}\")\n{a}\n"), format!("emit(\"retry {idx}\")\n{b}\n"))
}

fn gen_natural(rng: &mut Rng, idx: usize) -> String {
    let stmts = [
        "emit([1, 2][5])",
        "emit({}[\"k\"])",
        "emit(1 // 0)",
        "emit(\"a\" + 1)",
        "emit(undefined_name_zz)",
        "zq1 = [1]\nzq2 = {}\nemit(undefined_name_zz)",
        "zq3 = 1\ndef zq_f():\n    return undefined_inner_zz\nzq4 = 2",
        "zq5 = [x for x in range(3)]\nzq6 = zq5 + undefined_name_zz",
        "def zq_g(a, a):\n    return a\nzq7 = 1",
        "zq8 = 1\nbreak",
        "zq9 = 1\nreturn 3",
        "emit(None.foo)",
        "def broken(:\n    pass",
        "emit(len())",
        "emit(int(\"x\"))",
        "fail(\"boom\", 1)",
        "def rec(n):\n    return rec(n + 1)\nemit(rec(0))",
        "emit([1, 2, 3].index(9))",
        "emit(\"{} {}\".format(1))",
        "emit(\"%d\" % \"s\")",
        "x_t = (1, 2)\nx_t[0] = 3",
        "emit(max([]))",
        "emit({[1]: 2})",
        "emit(sorted([1, \"a\"]))",
        "emit(struct(a = 1).b)",
        "emit(range(1, 10, 0))",
        "def need2(a, b):\n    return a\nemit(need2(1))",
        "emit(need_kw(**{1: 2}))",
        "def need_kw(**kw):\n    return kw\nemit(need_kw(**{1: 2}))",
        "emit(json.decode(\"{bad\"))",
        "emit([x for x in 5])",
        "emit(1 << 1000000000000)",
        "emit(-1 << -1)",
        "emit(\"abc\"[1:2:0])",
        "emit(chr(-1))",
        "emit(ord(\"ab\"))",
        "emit(hash([]))",
        "emit(getattr(1, \"nope\"))",
        "load(\"nonexistent.star\", \"x\")",
        "emit(zip(1, 2))",
        "emit(enumerate(5))",
        "emit(dict([(1, 2, 3)]))",
        "emit(\" \".join([1]))",
        "emit(REC0(x = \"notint\"))",
        "emit(abs(\"x\"))",
        "emit(1 % 0)",
        "emit(1.0 // 0)",
        "emit(int(1e400))",
        // Type annotations: the failing check is the implicit `return None` at the end of a body
        // (also an empty one), a parameter or a default value.
        "def tq0() -> str:\n    pass\nemit(tq0())",
        "def tq1(x: int) -> int:\n    if x > 5:\n        return 1\nemit(tq1(1))",
        "def tq2(x: str):\n    return x\nemit(tq2(5))",
        "def tq3(x, y: list[int] = 3):\n    return y\nemit(tq3(1))",
        "def tq4(*, k: str = \"a\") -> list[str]:\n    return [k, 1]\nemit(tq4())",
        "tq5 = lambda x: x.nope\nemit(tq5(1))",
        "emit(f\"{undefined_in_fstring_zz}\")",
        "load(\"lib\", \"lib_typed\")\nemit(lib_typed(1))",
        "load(\"lib\", \"lib_typed_empty\")\nemit(lib_typed_empty())",
        // Deeply nested values: every recursive native operation must end in an error (or a
        // value), never in a native stack overflow.
        "dz = []\nfor _i in range(30000):\n    dz = [dz]\nemit(len(json.encode(dz)))",
        "dz = []\nfor _i in range(30000):\n    dz = [dz]\nemit(len(repr(dz)), len(str(dz)))",
        "dz = {}\nfor _i in range(30000):\n    dz = {\"k\": dz}\nemit(len(json.encode(dz)))",
        "dz = ()\nfor _i in range(30000):\n    dz = (dz,)\nemit({dz: 1}, hash(str(dz)[:5]))",
        "dz = []\ndy = []\nfor _i in range(30000):\n    dz = [dz]\n    dy = [dy]\nemit(dz == dy, dz < dy, sorted([dz, dy]) != None, dz in [dy])",
        "dz = struct(a = 1)\nfor _i in range(30000):\n    dz = struct(a = dz)\nemit(len(repr(dz)), len(json.encode(dz)))",
        "dz = []\nfor _i in range(30000):\n    dz = [dz]\nemit(len(\"%s|%r\" % (dz, dz)), len(\"{}\".format(dz)))",
        "emit(json.decode(\"[\" * 30000 + \"]\" * 30000))",
        "dz = []\nfor _i in range(30000):\n    dz = [dz]\nprint(dz)",
        // (pretty-printing indents every level: output grows with the square of the depth)
        "dz = []\nfor _i in range(1500):\n    dz = [dz]\npprint(dz)",
        "dz = []\nfor _i in range(30000):\n    dz = [dz]\nemit(type(dz), len(dz), bool(dz), dz[0] != None, list(dz) != None, dz + dz != None)",
        // Operations fed with their own receiver, directly or inside the argument.
        "dq = {1: 2}\ndq.update([dq])",
        "dq = {1: 2}\ndq.update([[dq, 1]])",
        "dq = {\"a\": 1}\ndq.update(dq)\ndq |= dq\nemit(dq)\ndq.update([dq.items()])",
        "lq = [1, 2]\nlq.extend(lq)\nlq += lq\nemit(lq)\nlq.extend([lq])\nemit(len(lq))\nlq.extend(lq[0] if type(lq[0]) == \"list\" else [lq])\nemit(\",\".join(lq))",
        "sq = set([1, 2])\nsq.update(sq)\nsq |= sq\nemit(sq)\nsq.update([sq])",
        "lq = [3, 1, 2]\nemit(sorted(lq, key = lambda v: lq.append(v)))",
        "dq = {1: 2, 3: 4}\nemit([dq.pop(k) for k in dq])",
        "dq = {1: 2}\nemit(dict([(k, dq.clear()) for k in dq]))",
        // Sorting values that cannot all be compared with each other (more than 20 elements).
        "emit(sorted([45, 6, 75, 24, 73, 78, 59, 92, 93, 10, 67, 44, 97, 82, 71, \"s\", 85, 46, 27, 80, 41]))",
        "emit(sorted([45, 6, 75, 24, 73, 78, 59, 92, None, 10, 67, 44, 97, 82, 71, \"s\", 85, 46, 27, 80, 41, [1], (2,)], reverse = True))",
        "emit(sorted(list(range(30)) + [\"x\"] + list(range(30)), key = lambda v: v))",
        "emit(sorted([(i % 7, \"a\" if i % 5 else 3) for i in range(40)]))",
        "emit(max(list(range(25)) + [\"s\"]), min([None] + list(range(25))))",
        "emit(sorted([float(\"nan\")] + [float(i) for i in range(30)] + [float(\"nan\"), 3]))",
        // Format strings with non-ASCII characters right after the conversion marker.
        "emit(\"ab%écd\" % (1,))",
        "emit(\"%€\" % 1)",
        "emit(\"100%😀\" % ())",
        "emit(\"é%sé%rü%d😀\" % (\"日本\", \"ü\", 3), \"%%é\" % (), \"%(é)s\" % {\"é\": 1})",
        "emit(\"{é}\".format(é = 1))",
        "emit(\"{:é}\".format(1), \"{0!é}\".format(1))",
        "emit(\"x%\" % ())",
        "emit(\"日本語\".index(\"語\", 1, 2), \"日本語\".find(\"本\", -1), \"a😀b\"[1:2], \"a😀b\".rfind(\"b\", 2, 100), \"😀\" * 3, \"é😀\".removeprefix(\"é\"), \"é😀\".split(\"\"))",
        "emit(\"é😀\".replace(\"\", \"-\"), \"é😀\".replace(\"\", \"-\", 2), \"abc\".replace(\"\", \"é\", -1), \"é\".splitlines(True), \"a\\r\\n\".splitlines(True), \"é\".elems(), \"é😀\".codepoints())",
        "emit(tqe_last())",
        "emit([tqe_last() for _ in range(2)])",
    ];
    if rng.chance(1, 9) {
        // The text ends - without a newline - in a typed def whose body falls off its end; a later
        // evaluation on the same module calls it (`tqe_last` above).
        return format!("emit(\"natural {idx}\")\ndef tqe_last() -> str:\n    zq_e = {idx}");
    }
    let s = stmts[rng.usize(stmts.len())];
    format!("emit(\"natural {idx}\")\n{s}\nemit(\"after natural\")\n")
}

fn gen_illtyped(rng: &mut Rng, idx: usize) -> String {
    let mut text = String::from(
        "SELF_L = [1]\nSELF_L.append(SELF_L)\nSELF_D = {}\nSELF_D[\"s\"] = SELF_D\nREC = record(x = int)\nEN = enum(\"a\", \"b\")\nb_unknown = struct(f = lambda: 1)\n",
    );
    text += &format!("emit(\"illtyped {idx}\")\n");
    let callee: String = if rng.bool() {
        let fs = ["abs", "all", "any", "bool", "chr", "dict", "dir", "enumerate", "float", "getattr", "hasattr", "hash", "int", "len", "list", "max", "min", "ord", "range", "repr", "reversed", "sorted", "str", "tuple", "type", "zip", "struct", "set", "map", "filter", "partial", "json.encode", "json.decode", "record", "enum", "field", "isinstance", "prepr", "pstr", "print", "fail", "sum", "eval_type", "call_stack"];
        fs[rng.usize(fs.len())].to_owned()
    } else {
        let recv = METHOD_RECEIVERS[rng.usize(METHOD_RECEIVERS.len())];
        // Pick the method dynamically: the k-th name of dir(receiver).
        format!("getattr({recv}, (dir({recv}) or [\"nomethod\"])[{} % max(len(dir({recv})), 1)])", rng.below(40))
    };
    let na = rng.usize(4);
    let mut args: Vec<String> = (0..na).map(|_| EXTREME_ARGS[rng.usize(EXTREME_ARGS.len())].to_owned()).collect();
    if rng.chance(1, 5) {
        args.push(format!("key = {}", EXTREME_ARGS[rng.usize(EXTREME_ARGS.len())]));
    }
    if rng.chance(1, 8) {
        args.push(format!("*{}", EXTREME_ARGS[rng.usize(EXTREME_ARGS.len())]));
    }
    if rng.chance(1, 8) {
        args.push(format!("**{}", EXTREME_ARGS[rng.usize(EXTREME_ARGS.len())]));
    }
    text += &format!("r_v = {callee}({})\nemit(type(r_v), len(repr(r_v)) < 100000)\n", args.join(", "));
    text
}

struct EvalRec {
    ok: bool,
    transcript: Vec<String>,
    err_text: String,
    problems: Vec<(String, String)>,
}

fn check_error(e: &starlark::Error, files: &[String], require_span: bool) -> Vec<(String, String)> {
    let mut problems = Vec::new();
    let in_files = |name: &str| files.iter().any(|f| f == name);
    match e.span() {
        Some(fs) => {
            let src = fs.file.source();
            let (b, en) = (fs.span.begin().get() as usize, fs.span.end().get() as usize);
            if !in_files(fs.file.filename()) {
                problems.push(("error-span-foreign-file".to_owned(), format!("span file `{}` is not an involved file", fs.file.filename())));
            } else if b > en || en > src.len() || !src.is_char_boundary(b) || !src.is_char_boundary(en) {
                problems.push(("error-span-out-of-file".to_owned(), format!("span {b}..{en} in file of {} bytes", src.len())));
            }
        }
        None => {
            if require_span {
                problems.push(("error-without-span".to_owned(), format!("error has no span: {}", kit::clip(&format!("{e}")))));
            }
        }
    }
    for fr in &e.call_stack().frames {
        if fr.name.is_empty() {
            problems.push(("callstack-frame-unnamed".to_owned(), "frame without a name".to_owned()));
        }
        if let Some(loc) = &fr.location {
            let src = loc.file.source();
            let (b, en) = (loc.span.begin().get() as usize, loc.span.end().get() as usize);
            if !in_files(loc.file.filename()) || b > en || en > src.len() || !src.is_char_boundary(b) || !src.is_char_boundary(en) {
                problems.push(("callstack-location-bad".to_owned(), format!("frame {} location {}:{b}..{en}", fr.name, loc.file.filename())));
            }
        }
    }
    problems
}

/// One step of a history, on the given evaluator.
fn run_step<'v>(eval: &mut Evaluator<'v, '_, '_>, module: &Module<'v>, step: &Json, idx: usize, files: &[String]) -> EvalRec {
    let before = kit::ctx(|c| c.transcript.len());
    let name = format!("h{idx}.star");
    let mut problems = Vec::new();
    let mut ok = true;
    let mut err_text = String::new();
    let kind = step["kind"].as_str().unwrap_or("module");
    let result: Result<String, starlark::Error> = if kind == "function" {
        // Call an earlier-defined function from the host.
        let fname = step["func"].as_str().unwrap_or("");
        match module.get(fname) {
            None => Ok("host: no such function".to_owned()),
            Some(f) => {
                let heap = module.heap();
                let arg = heap.alloc(step["arg"].as_i64().unwrap_or(0) as i32);
                eval.eval_function(f, &[arg], &[]).map(kit::encode)
            }
        }
    } else {
        match kit::parse(&name, step["text"].as_str().unwrap_or("")) {
            Err(e) => Err(e),
            Ok(ast) => eval.eval_module(ast, kit::globals()).map(kit::encode),
        }
    };
    match result {
        Ok(enc) => kit::ctx(|c| c.transcript.push(format!("result {enc}"))),
        Err(e) => {
            ok = false;
            err_text = kit::error_text(&e);
            // eval_function on a host-provided callable has no source of its own: the span may be absent
            // only if no Starlark frame was involved.
            let require_span = kind != "function";
            problems.extend(check_error(&e, files, require_span));
            let kind_s = kit::error_kind(&e);
            if kind_s == "Internal" {
                problems.push(("internal-error".to_owned(), kit::clip(&err_text)));
            }
            kit::ctx(|c| c.transcript.push(format!("error[{kind_s}] {}", err_text)));
        }
    }
    let cs = eval.call_stack_count();
    if cs != 0 {
        problems.push(("callstack-not-empty".to_owned(), format!("call_stack_count() == {cs} after evaluation {idx}")));
    }
    for p in kit::ctx(|c| std::mem::take(&mut c.problems)) {
        problems.push(("state-after-failure".to_owned(), format!("evaluation {idx}: {p}")));
    }
    let transcript = kit::ctx(|c| c.transcript[before..].to_vec());
    EvalRec { ok, transcript, err_text, problems }
}

struct HistoryRun {
    evals: Vec<EvalRec>,
    probe: Vec<String>,
    host: Vec<String>,
    fault_fired: bool,
    fault_site: String,
    fault_calls: u64,
    ticks: u64,
}

fn configure<'v, 'a>(eval: &mut Evaluator<'v, 'a, '_>, limits: &Json) {
    if limits["cancel"].as_bool().unwrap_or(false) {
        let flag = kit::ctx(|c| c.cancel.clone());
        eval.set_check_cancelled(Box::new(move || flag.get()));
    }
    if let Some(d) = limits["depth"].as_u64() {
        let _ = eval.set_max_callstack_size(d as usize);
    }
}

fn run_history(case: &Json, fail_at: u64, reuse: bool, probe_after: Option<usize>) -> HistoryRun {
    kit::ctx_reset();
    kit::ctx(|c| c.fail_at = fail_at);
    let empty = Vec::new();
    let steps = case["steps"].as_array().unwrap_or(&empty);
    let mut files: Vec<String> = (0..steps.len()).map(|i| format!("h{i}.star")).collect();
    files.push("probe.star".to_owned());
    let limits = &case["limits"];
    let mut evals = Vec::new();
    let mut probe = Vec::new();
    let mut host = Vec::new();
    let mut ticks = 0;
    // Frozen library (built fault-free; its fault() sites only run when the history calls it).
    let mut lib_modules = std::collections::BTreeMap::new();
    if let Some(lib) = case["lib"].as_str() {
        kit::ctx(|c| c.fail_at = 0);
        let fm = Module::with_temp_heap(|m| {
            {
                let mut e = Evaluator::new(&m);
                if let Ok(ast) = kit::parse("lib.star", lib) {
                    let _ = e.eval_module(ast, kit::globals());
                }
            }
            m.freeze()
        });
        if let Ok(fm) = fm {
            lib_modules.insert("lib".to_owned(), fm);
        }
        kit::ctx_reset();
        kit::ctx(|c| c.fail_at = fail_at);
        files.push("lib.star".to_owned());
    }
    let loader = kit::MapLoader { modules: lib_modules };
    let frozen = Module::with_temp_heap(|module| {
        let mut shared: Option<Evaluator> = if reuse {
            let mut e = Evaluator::new(&module);
            e.set_loader(&loader);
            configure(&mut e, limits);
            Some(e)
        } else {
            None
        };
        for (i, step) in steps.iter().enumerate() {
            kit::ctx(|c| c.cancel.set(false));
            let rec = match shared.as_mut() {
                Some(e) => run_step(e, &module, step, i, &files),
                None => {
                    let mut e = Evaluator::new(&module);
                    e.set_loader(&loader);
                    configure(&mut e, limits);
                    let r = run_step(&mut e, &module, step, i, &files);
                    ticks += e.get_total_tick_count();
                    r
                }
            };
            let failed = !rec.ok;
            evals.push(rec);
            if failed && probe_after.map(|p| p == i).unwrap_or(true) && probe.is_empty() {
                // Probe: unrelated code on the same evaluator (or a new evaluator on the same module).
                kit::ctx(|c| c.cancel.set(false));
                let before = kit::ctx(|c| c.transcript.len());
                let saved = kit::ctx(|c| std::mem::replace(&mut c.fail_at, 0));
                let pstep = json!({"kind": "module", "text": PROBE});
                let files2 = vec!["h999.star".to_owned()];
                let r = match shared.as_mut() {
                    Some(e) => run_step(e, &module, &pstep, 999, &files2),
                    None => {
                        let mut e = Evaluator::new(&module);
                        run_step(&mut e, &module, &pstep, 999, &files2)
                    }
                };
                kit::ctx(|c| c.fail_at = saved);
                probe = r.transcript.clone();
                probe.extend(r.problems.iter().map(|(a, b)| format!("problem {a} {b}")));
                // Remove the probe's lines from the main transcript bookkeeping.
                kit::ctx(|c| c.transcript.truncate(before));
            }
        }
        if let Some(e) = shared.as_ref() {
            ticks += e.get_total_tick_count();
        }
        drop(shared);
        // Host API on the module after the history.
        let mut names: Vec<String> = module.names().map(|n| n.as_str().to_owned()).collect();
        names.sort();
        for n in &names {
            match module.get(n) {
                Some(v) => host.push(format!("get {n} {}", v.get_type())),
                None => host.push(format!("get {n} <none>")),
            }
        }
        module.freeze()
    });
    match frozen {
        Ok(fm) => {
            let mut names: Vec<String> = fm.names().map(|n| n.as_str().to_owned()).collect();
            names.sort();
            for n in &names {
                match fm.get_option_owned(n) {
                    Ok(Some(v)) => host.push(format!("frozen {n} {}", v.as_ref().value().get_type())),
                    Ok(None) => host.push(format!("frozen {n} <none>")),
                    Err(_) => host.push(format!("frozen {n} <private>")),
                }
            }
            // Load every public name from an importer.
            let public: Vec<&String> = names.iter().filter(|n| !n.starts_with('_')).collect();
            if !public.is_empty() {
                let loader = kit::MapLoader { modules: [("m".to_owned(), fm.clone())].into_iter().collect() };
                Module::with_temp_heap(|m2| {
                    let mut e = Evaluator::new(&m2);
                    e.set_loader(&loader);
                    for n in &public {
                        let text = format!("load(\"m\", v = \"{n}\")\nemit(type(v))\n");
                        match kit::parse("imp.star", &text) {
                            Ok(ast) => match e.eval_module(ast, kit::globals()) {
                                Ok(_) => host.push(format!("load {n} ok")),
                                Err(err) => host.push(format!("load {n} err {}", kit::error_kind(&err))),
                            },
                            Err(_) => host.push(format!("load {n} parse-error")),
                        }
                    }
                });
            }
        }
        Err(e) => host.push(format!("freeze-error {e:?}")),
    }
    let (fault_fired, fault_site, fault_calls) = kit::ctx(|c| (c.fault_fired, c.fault_site.clone(), c.fault_calls));
    HistoryRun { evals, probe, host, fault_fired, fault_site, fault_calls, ticks }
}

fn fresh_probe() -> Vec<String> {
    kit::ctx_reset();
    let mut out = Vec::new();
    Module::with_temp_heap(|module| {
        let mut e = Evaluator::new(&module);
        let r = run_step(&mut e, &module, &json!({"kind": "module", "text": PROBE}), 999, &["h999.star".to_owned()]);
        out = r.transcript;
        out.extend(r.problems.iter().map(|(a, b)| format!("problem {a} {b}")));
    });
    out
}

const ENUM_SETUP: &str = "SELF_L = [1]\nSELF_L.append(SELF_L)\nSELF_D = {}\nSELF_D[\"s\"] = SELF_D\nREC = record(x = int)\nEN = enum(\"a\", \"b\")\nb_unknown = struct(f = lambda: 1)\n";

const ENUM_ARGS: &[&str] = &[
    "0", "1", "-1", "2", "7", "-3", "2147483647", "-2147483648", "(1 << 31)", "(1 << 63)", "-(1 << 63)", "(1 << 64)", "(1 << 200)",
    "1.5", "-0.0", "float(\"nan\")", "float(\"inf\")", "None", "True", "\"\"", "\"a\"", "\"abc\" * 300", "\"h\\u00e9\\u65e5\"",
    "[]", "[1, 2, 3]", "SELF_L", "{}", "{\"k\": 1}", "SELF_D", "()", "(1, \"a\", None)", "set([1, 2])", "range(0)", "range(5)", "range(1000)",
    "struct(a = 1)", "len", "lambda *a, **k: a", "REC", "EN", "\"%s%s\"", "[None] * 1000",
];

const ENUM_RECEIVERS: &[&str] = &[
    "\"hello world\"", "\"\"", "[3, 1, 2]", "[]", "{\"a\": 1, \"b\": 2}", "{}", "set([1, 2, 3])", "set()", "(1, 2)", "SELF_L", "SELF_D",
    "range(3)", "REC(x = 1)", "EN(\"a\")", "1", "1.5", "struct(a = 1)", "json", "typing",
];

const ENUM_GLOBALS: &[&str] = &[
    "abs", "all", "any", "bool", "chr", "dict", "dir", "enumerate", "float", "getattr", "hasattr", "hash", "int", "len", "list", "max", "min",
    "ord", "range", "repr", "reversed", "sorted", "str", "tuple", "type", "zip", "struct", "set", "map", "filter", "partial", "record", "enum",
    "field", "isinstance", "prepr", "pstr", "print", "fail", "eval_type", "call_stack", "namespace",
];

/// All callee expressions: global functions and `getattr(receiver, method)` for every method.
fn enum_callees() -> Vec<String> {
    let mut out: Vec<String> = ENUM_GLOBALS.iter().map(|s| (*s).to_owned()).collect();
    Module::with_temp_heap(|m| {
        let mut e = Evaluator::new(&m);
        if let Ok(ast) = kit::parse("setup.star", ENUM_SETUP) {
            let _ = e.eval_module(ast, kit::globals());
        }
        for r in ENUM_RECEIVERS {
            if let Ok(ast) = kit::parse("recv.star", &format!("{r}\n")) {
                if let Ok(v) = e.eval_module(ast, kit::globals()) {
                    let mut names = v.dir_attr();
                    names.sort();
                    for n in names {
                        out.push(format!("{r}.{n}"));
                    }
                }
            }
        }
    });
    out
}

fn enum_calls(case: &Json) -> (String, Vec<String>) {
    let callees = enum_callees();
    let callee = &callees[(case["callee_index"].as_u64().unwrap_or(0) as usize) % callees.len()];
    let f2 = (case["second_for_first"].as_u64().unwrap_or(0) as usize) % ENUM_ARGS.len();
    let f3 = (case["third"].as_u64().unwrap_or(0) as usize) % ENUM_ARGS.len();
    let mut calls: Vec<String> = vec![format!("{callee}()")];
    for a in ENUM_ARGS {
        calls.push(format!("{callee}({a})"));
    }
    for b in ENUM_ARGS {
        calls.push(format!("{callee}({}, {b})", ENUM_ARGS[f2]));
        calls.push(format!("{callee}({b}, {})", ENUM_ARGS[f3]));
    }
    for b in ENUM_ARGS.iter().take(12) {
        calls.push(format!("{callee}({}, {}, {b})", ENUM_ARGS[f2], ENUM_ARGS[f3]));
        calls.push(format!("{callee}({}, key = {b})", ENUM_ARGS[f2]));
        calls.push(format!("{callee}(*{b})"));
        calls.push(format!("{callee}(**{b})"));
    }
    if case["all_pairs"].as_bool().unwrap_or(false) {
        // Complete enumeration of the two-argument calls of this callee over the catalogue.
        calls.clear();
        for a in ENUM_ARGS {
            for b in ENUM_ARGS {
                calls.push(format!("{callee}({a}, {b})"));
            }
        }
    }
    if let Some(explicit) = case["calls"].as_array() {
        calls = explicit.iter().filter_map(|x| x.as_str().map(|s| s.to_owned())).collect();
    }
    (callee.clone(), calls)
}

/// Programs that end in an error (second element of each pair would be the repaired follow-up: not used here).
const REPEAT_FAILS: &[&str] = &[
    "dz = []\ndy = []\nfor _i in range(400):\n    dz = [dz]\n    dy = [dy]\nemit(dz == dy)",
    "dz = []\ndy = []\nfor _i in range(400):\n    dz = [dz]\n    dy = [dy]\nemit(dz < dy)",
    "dz = []\nfor _i in range(400):\n    dz = [dz]\nemit(len(json.encode(dz)))",
    "dz = []\nfor _i in range(400):\n    dz = [dz]\nemit(len(repr(dz)))",
    "emit(json.encode([1, {\"k\": [2, len]}]))",
    "cy = [1]\ncy.append(cy)\nemit(json.encode(cy))",
    "def rq(n):\n    return rq(n + 1)\nrq(0)",
    "def rq(n):\n    return [rq(m) for m in [n + 1]]\nrq(0)",
    "def rq(n):\n    return sorted([n], key = rq)\nrq(0)",
    "emit(sorted([3, 1, 2], key = lambda v: 1 // 0))",
    "def lp(d):\n    for k in d:\n        fail(\"in loop\")\nlp({\"a\": 1})",
    "emit([x for x in [1, 2] if fail(\"in compr\")])",
    "def ty(x: int) -> int:\n    return x\nty(\"s\")",
    "emit(\"{} {}\".format(1))",
    "emit({}[\"k\"])",
    "load(\"nonexistent.star\", \"x\")",
    "emit(apply(lambda: apply(lambda: 1 // 0)))",
    "emit(\"%d\" % \"s\")",
    "emit(max([1, \"a\"]))",
];

fn execute_repeat(case: &Json, mut o: Outcome) -> Outcome {
    let program = case["program"].as_str().unwrap_or("").to_owned();
    let k = case["k"].as_u64().unwrap_or(230);
    // A fresh OS thread: thread-local state starts clean, so the case does not depend on what the
    // worker has evaluated before.
    let p2 = program.clone();
    let h = std::thread::Builder::new().stack_size(64 << 20).spawn(move || -> Result<(u64, Vec<String>), (String, String)> {
        let files = vec!["rep.star".to_owned(), "probe.star".to_owned()];
        let t0 = fresh_probe();
        let mut log = Vec::new();
        let mut first_err: Option<String> = None;
        let mut done = 0u64;
        let mut verdict: Option<(String, String)> = None;
        Module::with_temp_heap(|module| {
            let mut eval = Evaluator::new(&module);
            for i in 0..k {
                kit::ctx_reset();
                let r = match kit::parse("rep.star", &format!("{p2}\n")) {
                    Err(e) => Err(e),
                    Ok(ast) => eval.eval_module(ast, kit::globals()).map(|_| ()),
                };
                done += 1;
                match r {
                    Ok(()) => {
                        verdict = Some(("harness".to_owned(), format!("repetition {i}: the program did not fail")));
                        return;
                    }
                    Err(e) => {
                        for (c, d) in check_error(&e, &files, false) {
                            verdict = Some((c, format!("repetition {i}: {d}")));
                            return;
                        }
                        let text = format!("[{}] {}", kit::error_kind(&e), kit::error_text(&e));
                        match &first_err {
                            None => first_err = Some(text),
                            Some(f) => {
                                if *f != text {
                                    verdict = Some(("repeated-failure-changes".to_owned(), format!("the same failing program gives another error the {}-th time: first `{}`, now `{}`", i + 1, kit::clip(f), kit::clip(&text))));
                                    return;
                                }
                            }
                        }
                        if eval.call_stack_count() != 0 {
                            verdict = Some(("callstack-not-empty".to_owned(), format!("call_stack_count() == {} after repetition {i}", eval.call_stack_count())));
                            return;
                        }
                    }
                }
            }
            // The same evaluator is as good as new.
            kit::ctx_reset();
            let r = run_step(&mut eval, &module, &json!({"kind": "module", "text": PROBE}), 999, &["h999.star".to_owned()]);
            let mut t1 = r.transcript;
            t1.extend(r.problems.iter().map(|(a, b)| format!("problem {a} {b}")));
            if t1 != t0 {
                verdict = Some(("probe-differs-after-repeated-failure".to_owned(), format!("after {k} failures, same evaluator: {:?}", kit::diff_transcripts(&t0, &t1))));
            }
        });
        if let Some(v) = verdict {
            return Err(v);
        }
        // And so is the thread: a fresh evaluator and module.
        let t2 = fresh_probe();
        if t2 != t0 {
            return Err(("probe-differs-after-repeated-failure".to_owned(), format!("after {k} failures, fresh evaluator on the same thread: {:?}", kit::diff_transcripts(&t0, &t2))));
        }
        log.push(first_err.unwrap_or_default());
        Ok((done, log))
    });
    match h.map(|h| h.join()) {
        Ok(Ok(Ok((done, log)))) => {
            o.sim_time += done;
            o.nontrivial = true;
            o.bump("fault.repeated_failures", done);
            o.bump("probe.repeat_histories", 1);
            o.log_hash = kit::hash_lines(&log);
        }
        Ok(Ok(Err((c, d)))) => {
            if c == "harness" {
                o.bump("invalid_cells", 1);
            } else {
                let key = c.clone();
                o.violate(&c, &key, format!("`{}` x {k}: {d}", kit::clip(&program)));
            }
        }
        Ok(Err(_)) => o.violate("panic", "panic", format!("panic while repeating `{}`: {}", kit::clip(&program), take_last_panic().unwrap_or_default())),
        Err(e) => o.violate("harness", "harness", format!("cannot spawn: {e}")),
    }
    o
}

/// The program of a deep-nesting case.
fn deepnest_program(op: &str, depth: u64, container: &str) -> String {
    let (init, step) = match container {
        "tuple" => ("()", "(dz,)"),
        "dict" => ("{}", "{\"k\": dz}"),
        "struct" => ("struct(a = 1)", "struct(a = dz)"),
        _ => ("[]", "[dz]"),
    };
    let build = format!("def nest(n):\n    dz = {init}\n    for _i in range(n):\n        dz = {step}\n    return dz\ndz = nest({depth})\n");
    let tail = match op {
        "gc" => "junk = [str(i) * 40 for i in range(30000)]\nafter = 1\nemit(after)\n".to_owned(),
        "repr" => "emit(len(repr(dz)))\n".to_owned(),
        "str" => "emit(len(str(dz)))\n".to_owned(),
        "hash" => "emit(len({(dz,): 1}))\n".to_owned(),
        "eq" => format!("dy = nest({depth})\nemit(dz == dy)\n"),
        "json" => "emit(len(json.encode(dz)))\n".to_owned(),
        "sorted" => format!("dy = nest({depth})\nemit(len(sorted([dz, dy])))\n"),
        "format" => "emit(len(\"%s\" % (dz,)))\n".to_owned(),
        "drop" => "dz = None\nemit(1)\n".to_owned(),
        _ => String::new(), // freeze: nothing more, the module is frozen afterwards
    };
    format!("{build}{tail}")
}

/// Runs in a child process of its own: a native stack overflow kills the process.
fn execute_deepnest_inner(case: &Json, mut o: Outcome) -> Outcome {
    let text = deepnest_program(case["op"].as_str().unwrap_or("freeze"), case["depth"].as_u64().unwrap_or(1000), case["container"].as_str().unwrap_or("list"));
    kit::ctx_reset();
    let frozen = Module::with_temp_heap(|module| {
        {
            let mut eval = Evaluator::new(&module);
            let r = run_step(&mut eval, &module, &json!({"kind": "module", "text": text}), 0, &["h0.star".to_owned()]);
            for (c, d) in &r.problems {
                o.violate(c, c, d.clone());
            }
            o.bump(if r.ok { "deepnest.evaluations_ok" } else { "deepnest.evaluations_ending_in_error" }, 1);
        }
        module.freeze().map(|_| ())
    });
    if let Err(e) = frozen {
        o.bump("deepnest.freeze_errors", 1);
        let _ = e;
    }
    o.nontrivial = true;
    o
}

fn execute_deepnest(case: &Json, mut o: Outcome) -> Outcome {
    let mut inner = case.clone();
    inner["mode"] = json!("deepnest-inner");
    let what = format!("{} nested {} deep, then `{}`", case["container"].as_str().unwrap_or(""), case["depth"], case["op"].as_str().unwrap_or(""));
    o.sim_time += 1;
    match exec_case_in_child("C07", &inner, 120) {
        ChildResult::Outcome(r) => {
            o.bump("probe.deep_nesting_survived", 1);
            if let Some(v) = r.violation {
                o.violate(&v.class, &v.key, format!("{what}: {}", v.detail));
            }
            o.nontrivial = true;
        }
        ChildResult::Crash(desc) => {
            // Recorded, not repaired: the collector, the freezer, repr/str and hashing recurse on the
            // native stack once per nesting level.
            if desc.contains("signal 6") || desc.contains("signal 11") {
                o.note_known("deep-nesting/native-stack-overflow", format!("{what}: the process died ({desc})"));
            } else {
                o.violate("crash", "crash", format!("{what}: {desc}"));
            }
        }
        ChildResult::Hang => o.violate("hang", "hang", format!("{what}: no result within 120 s")),
    }
    o.log_hash = fnv(what.as_bytes());
    o
}

fn execute_enum(case: &Json, mut o: Outcome) -> Outcome {
    let (callee, calls) = enum_calls(case);
    let callee = &callee;
    let probe_ref = fresh_probe();
    let printer = kit::TranscriptPrinter;
    let files = vec!["call.star".to_owned(), "setup.star".to_owned()];
    let mut log: Vec<String> = vec![callee.clone()];
    kit::ctx_reset();
    // A fresh module every 40 calls (receivers such as SELF_L are mutated by some methods).
    for chunk in calls.chunks(40) {
        if o.violation.is_some() {
            break;
        }
        Module::with_temp_heap(|m| {
            let mut e = Evaluator::new(&m);
            e.set_print_handler(&printer);
            if let Ok(ast) = kit::parse("setup.star", ENUM_SETUP) {
                let _ = e.eval_module(ast, kit::globals());
            }
            for c in chunk {
                let text = format!("r_v = {c}\nemit(type(r_v), len(repr(r_v)) < 2000000)\n");
                let before = kit::ctx(|x| x.transcript.len());
                let r = match kit::parse("call.star", &text) {
                    Err(e) => Err(e),
                    Ok(ast) => e.eval_module(ast, kit::globals()).map(|_| ()),
                };
                let _ = kit::ctx(|x| x.transcript.split_off(before));
                o.sim_time += 1;
                match r {
                    Ok(()) => {
                        o.bump("enum_calls_ok", 1);
                        log.push(format!("{c} ok"));
                    }
                    Err(err) => {
                        o.nontrivial = true;
                        o.bump("fault.natural_or_illtyped_failure", 1);
                        log.push(format!("{c} -> {}", kit::clip(&format!("{}", err.without_diagnostic()))));
                        for (class, detail) in check_error(&err, &files, true) {
                            o.violate(&class, &class, format!("call `{c}`: {detail}"));
                        }
                        if kit::error_kind(&err) == "Internal" {
                            o.violate("internal-error", "internal-error", format!("call `{c}`: {}", kit::clip(&kit::error_text(&err))));
                        }
                    }
                }
                if e.call_stack_count() != 0 {
                    o.violate("callstack-not-empty", "callstack-not-empty", format!("after call `{c}`: call_stack_count() == {}", e.call_stack_count()));
                }
                if o.violation.is_some() {
                    // Name the call in the replayable case.
                    return;
                }
            }
            // Probe on the same evaluator after a batch of (mostly failing) calls.
            let before = kit::ctx(|x| x.transcript.len());
            let r = run_step(&mut e, &m, &json!({"kind": "module", "text": PROBE}), 999, &["h999.star".to_owned()]);
            let _ = kit::ctx(|x| x.transcript.split_off(before));
            o.bump("probe.probe_evaluations", 1);
            if let Some(d) = kit::diff_transcripts(&probe_ref, &r.transcript) {
                o.violate("probe-differs-after-failure", "probe", format!("after a batch of calls of `{callee}`: {d}"));
            }
        });
    }
    // load() statements that must fail: no loader configured, unknown module, unknown or private
    // symbol - errors like any other (span of the load statement in the evaluated file, evaluator
    // usable afterwards).
    let lib = Module::with_temp_heap(|m| {
        {
            let mut e = Evaluator::new(&m);
            if let Ok(ast) = kit::parse("lib.star", "pub_x = 1\n_priv_x = 2\n") {
                let _ = e.eval_module(ast, kit::globals());
            }
        }
        m.freeze()
    });
    if let Ok(lib) = lib {
        let loader = kit::MapLoader { modules: [("lib".to_owned(), lib)].into_iter().collect() };
        let lfiles = vec!["ld.star".to_owned(), "lib.star".to_owned()];
        let which = (case["callee_index"].as_u64().unwrap_or(0) % 5) as usize;
        let (text, with_loader) = [
            ("zl0 = 1\nload(\"lib\", \"pub_x\")\nzl1 = 2\n", false),
            ("zl0 = 1\nload(\"nolib\", \"pub_x\")\n", true),
            ("load(\"lib\", \"pub_x\", \"no_such_symbol\")\n", true),
            ("load(\"lib\", y = \"_priv_x\")\n", true),
            ("zl0 = 1\nload(\"lib\", \"pub_x\")\nload(\"lib\", z = \"pub_y\")", true),
        ][which];
        Module::with_temp_heap(|m| {
            let mut e = Evaluator::new(&m);
            if with_loader {
                e.set_loader(&loader);
            }
            match kit::parse("ld.star", text) {
                Err(_) => {}
                Ok(ast) => match e.eval_module(ast, kit::globals()) {
                    Ok(_) => o.violate("failing-load-succeeded", "load-error", format!("`{}` (loader configured: {with_loader}) succeeded", text.replace('\n', "; "))),
                    Err(err) => {
                        o.bump("probe.failing_load_statements", 1);
                        for (class, detail) in check_error(&err, &lfiles, true) {
                            o.violate(&class, &class, format!("`{}` (loader configured: {with_loader}): {detail}", text.replace('\n', "; ")));
                        }
                    }
                },
            }
            if e.call_stack_count() != 0 {
                o.violate("callstack-not-empty", "callstack-not-empty", format!("after a failing load: call_stack_count() == {}", e.call_stack_count()));
            }
            let before = kit::ctx(|x| x.transcript.len());
            let r = run_step(&mut e, &m, &json!({"kind": "module", "text": PROBE}), 999, &["h999.star".to_owned()]);
            let _ = kit::ctx(|x| x.transcript.split_off(before));
            if let Some(d) = kit::diff_transcripts(&probe_ref, &r.transcript) {
                o.violate("probe-differs-after-failure", "probe", format!("after a failing load statement: {d}"));
            }
        });
    }
    o.bump("enum_cases", 1);
    if case["all_pairs"].as_bool().unwrap_or(false) {
        o.bump("enum_cases_all_pairs_of_two_arguments", 1);
    }
    o.log_hash = kit::hash_lines(&log);
    o
}

impl World for C07 {
    fn id(&self) -> &'static str {
        "C07"
    }

    fn describe(&self) -> Describe {
        Describe {
            level: "fault_enumeration",
            rule: "case = a history of 2-7 evaluations (eval_module / eval_function) on one Module: nests of defs, loops, comprehensions and native callbacks with fault() sites at every level, interleaved with naturally failing programs (index/key/type/arity/scope/parse/recursion errors) and ill-typed builtin/method calls over an extreme-value catalogue; for every enumerated failure point f (all dynamic fault() invocations up to a cap) the history is re-run with the f-th invocation failing, once re-using one evaluator and once with a fresh evaluator per evaluation; non-trivial = at least one evaluation of the history failed; distinct = digest of (history text, failure points)",
            sim_time_unit: "evaluator ticks (calls + loop back-edges) executed",
            real_components: vec!["parser", "scope resolver", "compiler", "bytecode interpreter", "call stack / frames", "all builtins and methods reached", "Module host API (names/get/freeze/load)"],
            stub_components: vec!["fault() native raising at the planned invocation", "cancellation flag"],
            assumptions: vec!["evaluator re-use across a history must be unobservable (reference = fresh evaluator per evaluation on the same module)", "errors raised by eval_function on a host-called function need not carry a span if no Starlark code was involved"],
            exhaustive: false,
        }
    }

    fn budget(&self, tier: Tier) -> Budget {
        match tier {
            Tier::Quick => Budget { runs: 4000, wall_s: 90, block: 100, recheck: 32, hang_s: 90 },
            Tier::Thorough => Budget { runs: 150_000, wall_s: 1500, block: 300, recheck: 200, hang_s: 90 },
        }
    }

    fn generate(&self, seed: u64, index: u64, tier: Tier) -> Json {
        if index % 64 == 30 {
            // A value nested very deeply (built by a loop), then one operation that walks it.
            let mut r = Rng::new(run_seed(seed, "C07deep", index));
            let op = *r.pick(&["freeze", "gc", "repr", "str", "hash", "eq", "json", "drop", "sorted", "format"]);
            return json!({"mode": "deepnest", "op": op, "depth": *r.pick(&[20_000u64, 300_000, 3_000_000]), "container": *r.pick(&["list", "tuple", "dict", "struct"])});
        }
        if index % 16 == 14 {
            // One failing evaluation repeated many times on one evaluator: whatever a failure
            // leaves behind (a frame, a recursion level, an entry of a guard set) adds up.
            let mut r = Rng::new(run_seed(seed, "C07repeat", index));
            let p = REPEAT_FAILS[r.usize(REPEAT_FAILS.len())];
            return json!({"mode": "repeat", "program": p, "k": *r.pick(&[60u64, 230, 230, 300])});
        }
        if index % 8 == 6 {
            // All pairs of catalogue values as the two arguments of one callee (global builtins
            // first, then the methods of each receiver).
            return json!({"mode": "enum", "callee_index": index / 8, "all_pairs": true});
        }
        if index % 4 == 3 {
            // Enumeration of builtin / method calls over the extreme-value catalogue: every
            // call is its own evaluation on ONE evaluator (a history in which most steps fail).
            let mut r = Rng::new(run_seed(seed, "C07enum", index));
            return json!({"mode": "enum", "callee_index": index / 4, "second_for_first": r.below(64), "third": r.below(64)});
        }
        let root = Rng::new(run_seed(seed, "C07", index));
        let mut wl = root.fork("workload");
        let mut fl = root.fork("faults");
        let n = 2 + wl.usize(5);
        let mut steps = Vec::new();
        let mut funcs: Vec<String> = Vec::new();
        let mode = wl.below(10);
        // A frozen library module whose functions (with fault sites, calling each other) are
        // load()ed and called by the history: the frozen-def call path.
        let (lib_text, lib_funcs) = {
            let (t, f) = gen_nest(&mut wl, 77, &[]);
            // Drop the top-level calls of the generated nest: the library only defines.
            let t: String = t.lines().filter(|l| !l.starts_with("emit(") && !l.starts_with("for t in") && !l.starts_with("    emit(")).map(|l| format!("{l}\n")).collect();
            // The library text ends without a newline, in a typed def that falls off its end.
            (format!("S = {{\"n\": 0, \"log\": []}}\n{t}def lib_typed_empty() -> str:\n    pass\ndef lib_typed(x) -> str:\n    y = x"), f)
        };
        for i in 0..n {
            let r = wl.below(10);
            if i > 0 && r < 2 && !funcs.is_empty() {
                let f = funcs[wl.usize(funcs.len())].clone();
                steps.push(json!({"kind": "function", "func": f, "arg": wl.range(0, 3)}));
            } else if i > 0 && r < 4 {
                if wl.chance(1, 3) {
                    let (a, b) = gen_retry(&mut wl, i);
                    steps.push(json!({"kind": "module", "text": a}));
                    steps.push(json!({"kind": "module", "text": b}));
                } else {
                    steps.push(json!({"kind": "module", "text": gen_natural(&mut wl, i)}));
                }
            } else if i > 0 && (r < 6 || mode == 0) {
                steps.push(json!({"kind": "module", "text": gen_illtyped(&mut wl, i)}));
            } else {
                let use_lib = wl.chance(1, 2);
                let mut callable = funcs.clone();
                let mut load = String::new();
                if use_lib {
                    let lf = &lib_funcs[wl.usize(lib_funcs.len())];
                    load = format!("load(\"lib\", l{i}_{lf} = \"{lf}\")\n");
                    callable = vec![format!("l{i}_{lf}")];
                }
                let (text, fs) = gen_nest(&mut wl, i, &callable);
                funcs.extend(fs);
                steps.push(json!({"kind": "module", "text": format!("{load}{text}")}));
            }
        }
        let nf = match tier {
            Tier::Quick => 6,
            Tier::Thorough => 16,
        };
        let fracs: Vec<f64> = (0..nf).map(|_| (fl.below(1_000_000) as f64) / 1_000_000.0).collect();
        json!({
            "lib": lib_text,
            "steps": steps,
            "fault_fracs": fracs,
            "all_faults_if_at_most": if tier == Tier::Thorough { 60 } else { 10 },
            "limits": {"depth": if fl.chance(1, 3) { json!(20 + fl.below(40)) } else { Json::Null }},
        })
    }

    fn execute(&self, case: &Json) -> Outcome {
        let mut o = Outcome::default();
        o.digest = fnv(case.to_string().as_bytes());
        if case["mode"] == "enum" {
            return execute_enum(case, o);
        }
        if case["mode"] == "repeat" {
            return execute_repeat(case, o);
        }
        if case["mode"] == "deepnest" {
            return execute_deepnest(case, o);
        }
        if case["mode"] == "deepnest-inner" {
            return execute_deepnest_inner(case, o);
        }
        let mut log: Vec<String> = Vec::new();
        let probe_ref = fresh_probe();
        // Fault-free reference (natural failures still happen).
        let base_a = run_history(case, 0, true, None);
        let base_b = run_history(case, 0, false, None);
        o.sim_time += base_a.ticks;
        let f_total = base_a.fault_calls;
        let check_pair = |o: &mut Outcome, a: &HistoryRun, b: &HistoryRun, what: &str| {
            for (i, (x, y)) in a.evals.iter().zip(b.evals.iter()).enumerate() {
                if let Some(d) = kit::diff_transcripts(&y.transcript, &x.transcript) {
                    o.violate("evaluator-reuse-visible", "reuse", format!("{what}: evaluation {i} differs between fresh-evaluator history and re-used evaluator: {d}"));
                }
            }
            if a.host != b.host {
                o.violate("evaluator-reuse-visible", "reuse-host", format!("{what}: host view of the module differs"));
            }
        };
        let check_run = |o: &mut Outcome, r: &HistoryRun, what: &str| {
            for (i, e) in r.evals.iter().enumerate() {
                for (class, detail) in &e.problems {
                    o.violate(class, class, format!("{what}: evaluation {i}: {detail}"));
                }
                if !e.ok {
                    o.nontrivial = true;
                }
            }
            if !r.probe.is_empty() {
                o.bump("probe.probe_evaluations", 1);
                if let Some(d) = kit::diff_transcripts(&probe_ref, &r.probe) {
                    o.violate("probe-differs-after-failure", "probe", format!("{what}: {d}"));
                }
            }
        };
        check_run(&mut o, &base_a, "fault-free/reused");
        check_run(&mut o, &base_b, "fault-free/fresh");
        check_pair(&mut o, &base_a, &base_b, "fault-free");
        for e in &base_a.evals {
            log.extend(e.transcript.iter().cloned());
            if !e.ok {
                o.bump("fault.natural_or_illtyped_failure", 1);
                let k = e.err_text.lines().last().unwrap_or("").to_owned();
                let _ = k;
            }
        }
        log.extend(base_a.host.iter().cloned());
        // Failure-point enumeration.
        let mut points: Vec<u64> = Vec::new();
        if f_total > 0 {
            if f_total <= case["all_faults_if_at_most"].as_u64().unwrap_or(10) {
                points = (1..=f_total).collect();
            } else if let Some(fr) = case["fault_fracs"].as_array() {
                for x in fr {
                    points.push(1 + (x.as_f64().unwrap_or(0.0) * f_total as f64) as u64);
                }
                points.sort();
                points.dedup();
            }
        }
        if let Some(explicit) = case["fault_points"].as_array() {
            points = explicit.iter().filter_map(|x| x.as_u64()).collect();
        }
        for f in points {
            if o.violation.is_some() {
                break;
            }
            let a = run_history(case, f, true, None);
            let b = run_history(case, f, false, None);
            o.sim_time += a.ticks;
            if !a.fault_fired {
                continue;
            }
            o.nontrivial = true;
            o.bump("fault.injected_failure", 1);
            let site = a.fault_site.clone();
            if site.contains("default") {
                o.bump("probe.failure_in_default_argument", 1);
            }
            let what = format!("fault #{f} at {site}");
            check_run(&mut o, &a, &format!("{what}/reused"));
            check_run(&mut o, &b, &format!("{what}/fresh"));
            check_pair(&mut o, &a, &b, &what);
            // Prefix property for the evaluation in which the fault fired: the first evaluation
            // whose outcome differs from the fault-free history.
            for (i, (x, y)) in a.evals.iter().zip(base_a.evals.iter()).enumerate() {
                if x.transcript == y.transcript {
                    continue;
                }
                let n = x.transcript.len().saturating_sub(1);
                let is_prefix = n <= y.transcript.len() && x.transcript[..n] == y.transcript[..n];
                if !is_prefix {
                    o.violate(
                        "faulted-transcript-not-prefix",
                        "prefix",
                        format!("{what}: evaluation {i}: output before the failure differs from the fault-free run: {:?}", kit::diff_transcripts(&y.transcript, &x.transcript)),
                    );
                }
                if x.ok {
                    o.violate("fault-swallowed", "swallowed", format!("{what}: evaluation {i} differs but did not fail"));
                }
                let last = x.transcript.last().cloned().unwrap_or_default();
                for (k, p) in [("map(", "probe.failure_in_native_callback"), ("sorted(", "probe.failure_in_native_callback"), ("apply(", "probe.failure_in_native_callback"), (" for w in", "probe.failure_in_comprehension"), (" for k in", "probe.failure_in_comprehension")] {
                    if last.contains(k) {
                        o.bump(p, 1);
                    }
                }
                break;
            }
            for e in &a.evals {
                log.extend(e.transcript.iter().cloned());
            }
        }
        o.log_hash = kit::hash_lines(&log);
        o
    }

    fn shrink(&self, case: &Json) -> Vec<Json> {
        let mut out = Vec::new();
        let empty = Vec::new();
        if case["mode"] == "enum" {
            let (_, calls) = enum_calls(case);
            let n = calls.len();
            if n > 1 {
                for (lo, hi) in [(0, n / 2), (n / 2, n)] {
                    let mut c = case.clone();
                    c["calls"] = json!(calls[lo..hi].to_vec());
                    out.push(c);
                }
                if n <= 8 {
                    for call in &calls {
                        let mut c = case.clone();
                        c["calls"] = json!([call]);
                        out.push(c);
                    }
                }
            }
            return out;
        }
        let steps = case["steps"].as_array().unwrap_or(&empty);
        for i in (0..steps.len()).rev() {
            if steps.len() > 1 {
                let mut c = case.clone();
                let mut s = steps.clone();
                s.remove(i);
                c["steps"] = json!(s);
                out.push(c);
            }
        }
        if !case["limits"]["depth"].is_null() {
            let mut c = case.clone();
            c["limits"]["depth"] = Json::Null;
            out.push(c);
        }
        // Drop lines inside module texts (from the end).
        for (i, st) in steps.iter().enumerate() {
            if let Some(t) = st["text"].as_str() {
                let lines: Vec<&str> = t.lines().collect();
                if lines.len() > 1 {
                    for k in (0..lines.len()).rev() {
                        let mut l2 = lines.clone();
                        l2.remove(k);
                        let mut c = case.clone();
                        c["steps"][i]["text"] = json!(l2.join("\n") + "\n");
                        out.push(c);
                    }
                }
            }
        }
        out
    }
}
