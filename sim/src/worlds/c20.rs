//! C20 — frozen modules are safe to share: concurrent use equals sequential use.
//!
//! k real OS threads run per-thread workloads over shared frozen modules under the cooperative
//! scheduler of `sched.rs`: a thread only runs while it holds the baton and hands it over at
//! the scheduling points hooked into `/repo` (chunk ref-counts and the per-thread chunk cache,
//! frozen-heap creation/drop/add_reference, lazily cached string hashes, atomic cells of frozen
//! defs, post_freeze, type ids, every evaluator tick) and at simulator-level send/recv. The
//! choice of who runs is the schedule PRNG's (random / PCT / few pre-emptions), so a run is a
//! pure function of its seed. Oracle: each thread's transcript equals the transcript of the
//! same scenario under the sequential (run-to-completion) schedule; no crash, panic, chunk
//! life-cycle assertion or deadlock. Freed arenas and chunks are poisoned.

use std::collections::BTreeMap;
use std::sync::Arc;

use serde_json::Value as Json;
use serde_json::json;
use starlark::environment::FrozenModule;
use starlark::environment::Module;
use starlark::eval::Evaluator;
use starlark::verif_hooks;

use crate::core::*;
use crate::genprog::Features;
use crate::genprog::Kind;
use crate::genprog::gen_module;
use crate::kit;
use crate::rng::Rng;
use crate::rng::fnv;
use crate::sched;
use crate::sched::Coop;
use crate::sched::Policy;

pub struct C20;

const SHARED_EXTRA: &str = r#"
strs = ["k%d" % i for i in range(40)]
strs2 = [("s" * (i % 5)) + str(i * 7919) for i in range(30)]
dstr = {("key-" + str(i)): i for i in range(25)}
Rec = record(x = int, y = field(str, "d"))
Col = enum("red", "green", "blue")
def mkrec(i):
    return Rec(x = i, y = str(i))
def lookup(s):
    return dstr.get(s, -1)
def cnt(xs):
    n = 0
    for x in xs:
        n += len(x)
    return n
def deep(n):
    return [n] if n == 0 else [n, deep(n - 1)]
def m_pop(c, k):
    return c.pop(k)
def m_clear(c):
    c.clear()
    return len(c)
def m_index(c, x):
    return c.index(x)
def m_remove(c, x):
    c.remove(x)
    return len(c)
def m_update(c, o):
    c.update(o)
    return len(c)
def enc(v):
    return json.encode(v)
def show(v):
    return repr(v) + str(v)
nested = {"k": [strs2, dstr, (1, 2, {"z": [None, True, 1.5]})], "e": [], "s": "x" * 20}
KINDS = [enum("red", "blue"), enum("n", "s", "w"), record(x = int)]
"#;

/// Same frozen call sites (`c.pop(k)`, `c.clear()`, ...) hit with receivers of a different type on
/// every thread, and shared frozen values serialised / printed by several threads at once.
fn hammer_program(variant: u64, n: u64) -> String {
    let body = match variant % 5 {
        0 => "    c = [i, i + 1, i + 2]\n    out.append(m_pop(c, 0))\n    out.append(m_index(c, i + 2))\n    out.append(m_remove(c, i + 1))\n    out.append(m_clear(c))\n",
        1 => "    c = {i: 1, i + 1: 2}\n    out.append(m_pop(c, i))\n    out.append(m_update(c, {7: 7}))\n    out.append(m_clear(c))\n",
        2 => "    c = set([i, i + 1])\n    out.append(m_remove(c, i))\n    out.append(m_update(c, [9]))\n    out.append(m_clear(c))\n",
        3 => "    out.append(m_index(\"abc\" + str(i), \"c\"))\n    out.append(m_index((\"q\" * (i % 3)) + \"z\", \"z\"))\n",
        _ => "    c = [i, i + 1] if i % 2 == 0 else {i: 1, i + 1: 2}\n    out.append(m_pop(c, 0 if i % 2 == 0 else i))\n    out.append(m_clear(c))\n",
    };
    // Types created by this thread while other threads create theirs (process-wide id generator):
    // values of one type must never pass for values of another, shared or own.
    let types = "OwnR = record(x = int, y = field(str, \"d\"))\nOwnE = enum(\"red\", \"green\", \"blue\")\nOwnR2 = record(x = int, y = field(str, \"d\"))\ndef typed_own(r: OwnR, e: OwnE) -> OwnR2:\n    return OwnR2(x = r.x + e.index)\nout.append([isinstance(mkrec(1), OwnR), isinstance(OwnR(x = 1), Rec), isinstance(OwnR(x = 1), OwnR2), OwnR(x = 1) == mkrec(1), OwnR(x = 1, y = \"1\") == OwnR2(x = 1, y = \"1\"), OwnE(\"red\") == Col(\"red\"), isinstance(OwnE(\"red\"), Col), isinstance(Col(\"red\"), OwnE), typed_own(OwnR(x = 2), OwnE(\"blue\")), repr(OwnR), repr(OwnE)])\n";
    // Anonymous types of the shared module bound to a global of this thread's module: a frozen type
    // must not take its name from whoever binds it first.
    let v = variant % 5;
    let anon = format!("T{v}Kind = KINDS[{}]\nemit(repr(T{v}Kind), [str(m) for m in T{v}Kind], T{v}Kind.type if hasattr(T{v}Kind, \"type\") else None, repr(KINDS))\nemit(T{v}Kind(\"{}\"))\n", v % 2, if v % 2 == 0 { "red" } else { "s" });
    format!(
        "load(\"shared0\", \"m_pop\", \"m_clear\", \"m_index\", \"m_remove\", \"m_update\", \"enc\", \"show\", \"dstr\", \"strs2\", \"nested\", \"Rec\", \"Col\", \"mkrec\", \"KINDS\")\nout = []\n{types}for i in range({n}):\n{body}    out.append(enc(nested)[-24:])\n    out.append(show(nested)[:30])\n    out.append(enc(dstr)[:16])\nemit(out[:14], len(out), hash(str(out)))\n{anon}"
    )
}


const USE_SHARED: &str = r#"
emit([hash(s) for s in strs][:5], len({s: 1 for s in strs}), [lookup("key-" + str(i)) for i in range(0, 30, 7)])
emit([s in dstr for s in strs2][:4], sorted(strs2)[:3], cnt(strs), {s: len(s) for s in strs2}.get(strs2[3]))
r1 = mkrec(3)
emit(r1, isinstance(r1, Rec), Col("red"), [c for c in Col], Col("blue").index, deep(4))
emit(repr(Rec), repr(Col), type(r1), r1.x + 1, Rec(x = 9, y = "z") == Rec(x = 9, y = "z"))
def local_fn(a):
    return [mkrec(a), lookup("key-3"), hash(strs[a % len(strs)])]
emit([local_fn(i) for i in range(3)])
"#;

/// What travels through a mailbox.
enum Msg {
    Module(FrozenModule),
}

struct Shared {
    modules: BTreeMap<String, FrozenModule>,
}

fn build_shared(case: &Json) -> Shared {
    let mut modules = BTreeMap::new();
    let empty = Vec::new();
    for (i, m) in case["shared"].as_array().unwrap_or(&empty).iter().enumerate() {
        let stmts: Vec<String> = m.as_array().map(|a| a.iter().filter_map(|x| x.as_str().map(|s| s.to_owned())).collect()).unwrap_or_default();
        // The fixed helpers come first: they exist whatever happens to the generated part.
        let text = format!("{}\n{}\n", if i == 0 { SHARED_EXTRA } else { "" }, stmts.join("\n"));
        let loader = kit::MapLoader { modules: modules.clone() };
        let fm = Module::with_temp_heap(|module| {
            {
                let mut eval = Evaluator::new(&module);
                eval.set_loader(&loader);
                if let Ok(ast) = kit::parse(&format!("shared{i}.star"), &text) {
                    let _ = eval.eval_module(ast, kit::globals());
                }
            }
            module.freeze()
        });
        if let Ok(fm) = fm {
            modules.insert(format!("shared{i}"), fm);
        }
    }
    Shared { modules }
}

fn eval_program(name: &str, text: &str, loader: &kit::MapLoader, freeze: bool) -> Option<FrozenModule> {
    Module::with_temp_heap(|module| {
        {
            let mut eval = Evaluator::new(&module);
            eval.set_loader(loader);
            match kit::parse(name, text) {
                Err(e) => kit::ctx(|c| c.transcript.push(format!("parse-error {e}"))),
                Ok(ast) => match eval.eval_module(ast, kit::globals()) {
                    Ok(v) => {
                        let l = format!("result {}", kit::encode(v));
                        kit::ctx(|c| c.transcript.push(l));
                    }
                    Err(e) => {
                        let l = format!("error[{}] {}", kit::error_kind(&e), kit::error_text(&e));
                        kit::ctx(|c| c.transcript.push(l));
                    }
                },
            }
        }
        if freeze { module.freeze().ok() } else { None }
    })
}

fn observe_module(fm: &FrozenModule, tag: &str) {
    let mut names: Vec<String> = fm.names().map(|n| n.as_str().to_owned()).collect();
    names.sort();
    for n in names {
        if let Ok(v) = fm.get_owned(&n) {
            let l = format!("{tag} {n} {}", kit::encode(v.as_ref().value()));
            kit::ctx(|c| c.transcript.push(l));
        }
    }
}

fn run_thread_ops(tid: usize, ops: &[Json], shared: &Shared, coop: &Arc<Coop<Msg>>) {
    let loader = kit::MapLoader { modules: shared.modules.clone() };
    let mut kept: Vec<FrozenModule> = Vec::new();
    for (i, op) in ops.iter().enumerate() {
        let kind = op["op"].as_str().unwrap_or("");
        let text = || -> String {
            op["stmts"].as_array().map(|a| a.iter().filter_map(|x| x.as_str()).collect::<Vec<_>>().join("\n")).unwrap_or_default() + "\n"
        };
        match kind {
            "use" => {
                let t = format!("load(\"shared0\", \"strs\", \"strs2\", \"dstr\", \"Rec\", \"Col\", \"mkrec\", \"lookup\", \"cnt\", \"deep\")\n{}\n{}", text(), USE_SHARED);
                eval_program(&format!("t{tid}_{i}.star"), &t, &loader, false);
            }
            "hammer" => {
                let t = hammer_program(op["variant"].as_u64().unwrap_or(0), op["n"].as_u64().unwrap_or(5));
                eval_program(&format!("t{tid}_{i}.star"), &t, &loader, false);
            }
            "build" => {
                if let Some(fm) = eval_program(&format!("t{tid}_{i}.star"), &text(), &loader, true) {
                    observe_module(&fm, "built");
                    if op["keep"].as_bool().unwrap_or(false) {
                        kept.push(fm);
                    }
                }
            }
            "send" => {
                let to = op["to"].as_u64().unwrap_or(0) as usize;
                if let Some(fm) = eval_program(&format!("t{tid}_{i}.star"), &text(), &loader, true) {
                    coop.send(tid, to, Msg::Module(fm));
                } else {
                    // Keep the protocol balanced: send the first shared module instead.
                    if let Some(fm) = shared.modules.values().next() {
                        coop.send(tid, to, Msg::Module(fm.clone()));
                    }
                }
            }
            "recv" => {
                match coop.recv(tid, op["from"].as_u64().unwrap_or(0) as usize) {
                    Some(Msg::Module(fm)) => {
                        observe_module(&fm, "received");
                        // Use it through load() as well, then drop it here (on this thread).
                        let mut l2 = kit::MapLoader { modules: shared.modules.clone() };
                        l2.modules.insert("rx".to_owned(), fm.clone());
                        let mut names: Vec<String> = fm.names().map(|n| n.as_str().to_owned()).filter(|n| !n.starts_with('_') && matches!(fm.get_option_owned(n), Ok(Some(_)))).collect();
                        names.sort();
                        names.truncate(6);
                        if !names.is_empty() {
                            let t = format!(
                                "load(\"rx\", {})\nemit({})\n",
                                names.iter().map(|n| format!("\"{n}\"")).collect::<Vec<_>>().join(", "),
                                names.join(", ")
                            );
                            eval_program(&format!("t{tid}_{i}_rx.star"), &t, &l2, false);
                        }
                        drop(l2);
                        drop(fm);
                    }
                    None => kit::ctx(|c| c.transcript.push("recv aborted".to_owned())),
                }
            }
            "drop_kept" => {
                kept.pop();
            }
            _ => {}
        }
    }
    drop(kept);
    drop(loader);
}

pub struct ScenarioResult {
    pub transcripts: Vec<Vec<String>>,
    pub panics: Vec<String>,
    pub deadlock: bool,
    pub hung: Option<String>,
    pub switches: u64,
    pub steps: u64,
    pub trace_hash: u64,
    pub site_counts: [u64; 32],
    pub site_switches: [u64; 32],
    pub chosen: Vec<u8>,
    pub forced_divergence: bool,
    pub rescues: u64,
}

pub fn run_scenario(case: &Json, seed: u64, policy: Policy, atomic: bool) -> ScenarioResult {
    sched::install();
    crate::atomrt::enable(atomic);
    let shared = Arc::new(build_shared(case));
    let empty = Vec::new();
    let threads = case["threads"].as_array().unwrap_or(&empty).clone();
    let n = threads.len();
    let coop: Arc<Coop<Msg>> = Coop::new(n, seed, policy, case["max_steps"].as_u64().unwrap_or(20_000) * if atomic { 10 } else { 1 });
    coop.pick_initial();
    let results: Arc<std::sync::Mutex<Vec<(Vec<String>, Option<String>)>>> = Arc::new(std::sync::Mutex::new(vec![(Vec::new(), None); n]));
    let mut joins = Vec::new();
    for (tid, ops) in threads.iter().enumerate() {
        let coop = coop.clone();
        let shared = shared.clone();
        let results = results.clone();
        let ops: Vec<Json> = ops.as_array().cloned().unwrap_or_default();
        joins.push(
            std::thread::Builder::new()
                .name(format!("sim-t{tid}"))
                .stack_size(64 << 20)
                .spawn(move || {
                    kit::ctx_reset();
                    coop.start(tid);
                    {
                        let c2 = coop.clone();
                        sched::set_site_hook(Some(Box::new(move |site| {
                            if site != verif_hooks::Site::AtomicOp || atomic {
                                c2.yield_point(tid, site)
                            }
                        })));
                    }
                    let r = std::panic::catch_unwind(std::panic::AssertUnwindSafe(|| run_thread_ops(tid, &ops, &shared, &coop)));
                    sched::set_site_hook(None);
                    let p = match r {
                        Ok(()) => None,
                        Err(_) => Some(take_last_panic().unwrap_or_else(|| "panic".to_owned())),
                    };
                    results.lock().unwrap_or_else(|e| e.into_inner())[tid] = (kit::take_transcript(), p);
                    drop(shared);
                    coop.finish(tid);
                })
                .expect("spawn sim thread"),
        );
    }
    // Wait until everybody has finished (or the simulation aborted), with a watchdog.
    let mut hung = None;
    {
        let mut g = coop.inner.lock().unwrap_or_else(|e| e.into_inner());
        loop {
            let all_done = g.states.iter().all(|s| *s == sched::TState::Finished);
            if all_done {
                break;
            }
            let (g2, _) = coop.main_cv.wait_timeout(g, std::time::Duration::from_millis(200)).unwrap_or_else(|e| e.into_inner());
            g = g2;
            if g.last_progress.elapsed() > std::time::Duration::from_millis(400) && g.last_progress.elapsed() <= std::time::Duration::from_secs(20) {
                // Nobody passed a scheduling point for a while: is the baton holder blocked on a
                // native lock whose owner is parked?
                drop(g);
                coop.try_rescue();
                g = coop.inner.lock().unwrap_or_else(|e| e.into_inner());
            }
            if g.last_progress.elapsed() > std::time::Duration::from_secs(20) {
                hung = Some(format!("no scheduling progress for 20 s; last point {:?}; states {:?}", g.last_site, g.states));
                g.abort = true;
                break;
            }
        }
    }
    if hung.is_none() {
        for (t, j) in joins.into_iter().enumerate() {
            coop.release_for_exit(t);
            let _ = j.join();
        }
    }
    crate::atomrt::enable(false);
    let g = coop.inner.lock().unwrap_or_else(|e| e.into_inner());
    let res = results.lock().unwrap_or_else(|e| e.into_inner());
    ScenarioResult {
        transcripts: res.iter().map(|x| x.0.clone()).collect(),
        panics: res.iter().filter_map(|x| x.1.clone()).collect(),
        deadlock: g.deadlock,
        hung,
        switches: g.switches,
        steps: g.steps,
        trace_hash: g.trace_hash,
        site_counts: g.site_counts,
        site_switches: g.site_switches,
        chosen: g.chosen.clone(),
        forced_divergence: g.forced_divergence,
        rescues: g.rescues,
    }
}

const SITE_NAMES: [&str; 17] = [
    "chunk_clone", "chunk_drop_before", "chunk_drop_dealloc", "chunk_cache_release", "chunk_cache_alloc", "frozen_heap_into_ref",
    "frozen_heap_drop", "add_reference", "str_hash", "atomic_value_load", "atomic_value_store", "post_freeze", "type_instance_id",
    "static_string_hash", "tick", "send", "atomic_op",
];

fn policy_from_json(p: &Json) -> Policy {
    match p["kind"].as_str().unwrap_or("random") {
        "sequential" => Policy::Sequential,
        "pct" => Policy::Pct { d: p["d"].as_u64().unwrap_or(3) as u32, horizon: p["horizon"].as_u64().unwrap_or(3000) },
        "few" => Policy::FewPreemptions { one_in: p["one_in"].as_u64().unwrap_or(50) },
        "forced" => Policy::Forced(p["choices"].as_array().map(|a| a.iter().filter_map(|x| x.as_u64().map(|x| x as u8)).collect()).unwrap_or_default()),
        _ => Policy::Random,
    }
}

impl World for C20 {
    fn id(&self) -> &'static str {
        "C20"
    }

    fn describe(&self) -> Describe {
        Describe {
            level: "exploration",
            rule: "case = 1-3 shared frozen modules (generated values of all kinds, functions, record/enum types, strings whose hash is not yet computed, polymorphic helper functions) + 2-6 per-thread workloads (load and use the shared modules, hash/compare/repr/json-encode their values, construct shared record/enum types, call the same frozen functions with receivers of a different type per thread, build-freeze-drop own modules, send a frozen module to another thread which uses and drops it) x 3-5 seeded schedules (uniform random, PCT with d change points, few pre-emptions) over the scheduling points: the hooked /repo sites, every evaluator tick, send/recv and - in half of the schedules - every atomic operation executed by the /repo library crates (atomics-only instrumented build); reference = the same scenario under the run-to-completion schedule; 1 case in 5 is the chunk micro-world, 1 in 8 a cold-start process; non-trivial = at least one context switch at a /repo site; distinct = distinct digest of the (thread, site) sequence of a schedule",
            sim_time_unit: "scheduling points passed (shared-state sites in /repo + atomic operations + evaluator ticks + send/recv)",
            real_components: vec!["starlark, starlark_map, starlark_syntax compiled with a scheduling point before every atomic operation (TSan atomics-only instrumentation, runtime = sim/src/atomrt.rs), including std generics instantiated in them (Arc, OnceLock / Mutex fast paths)", "chunk.rs / chunk_part.rs / chain.rs / per_thread.rs / allocator.rs re-compiled from /repo with a scheduling point before every atomic access (chunk micro-world under shuttle, 1 case in 5)", "frozen heaps / FrozenHeapRef ref-counting", "chunk allocator, chunk ref-counts, per-thread chunk cache", "lazy string hash cache", "frozen def atomic cells / post_freeze", "record / enum types", "evaluator on every thread", "std thread-locals and statics (real OS threads)"],
            stub_components: vec!["OS scheduler (replaced by the seeded cooperative scheduler: one thread holds the baton at a time)", "mailboxes between threads", "file loader"],
            assumptions: vec![
                "code between two scheduling points runs atomically; a data race on plain (non-atomic) memory is only seen if it changes a result or trips an assertion at this granularity (no happens-before race detector: Miri cannot run the crate, real TSan needs an instrumented std)",
                "atomic operations are executed sequentially consistent (no weak-memory behaviours are explored)",
                "initialisers of process-wide lazies run without pre-emption (Once guarantees nobody observes their intermediate states)",
            ],
            exhaustive: false,
        }
    }

    fn budget(&self, tier: Tier) -> Budget {
        match tier {
            Tier::Quick => Budget { runs: 400, wall_s: 150, block: 40, recheck: 16, hang_s: 180 },
            Tier::Thorough => Budget { runs: 60_000, wall_s: 1800, block: 80, recheck: 64, hang_s: 180 },
        }
    }

    fn init_process(&self) {
        verif_hooks::set_poison(true);
        if std::env::var_os("VERIF_NO_WARMUP").is_some() {
            return;
        }
        // Warm up process-wide lazies so that ordinary runs are history-independent.
        kit::ctx_reset();
        let loader = kit::MapLoader { modules: BTreeMap::new() };
        let t = format!("{SHARED_EXTRA}\n{USE_SHARED}\nx = [1, 2]\nx.append(3)\nemit(sorted(x), {{1: 2}}, \"a%s\" % 1, json.encode(x), partial(len, x)())\n");
        if let Some(fm) = eval_program("warmup.star", &t, &loader, true) {
            let mut l2 = kit::MapLoader { modules: BTreeMap::new() };
            l2.modules.insert("shared0".to_owned(), fm);
            for v in 0..5 {
                let _ = eval_program("warmup2.star", &hammer_program(v, 2), &l2, false);
            }
        }
        kit::ctx_reset();
    }

    fn generate(&self, seed: u64, index: u64, tier: Tier) -> Json {
        if index % 5 == 4 {
            // Chunk micro-world: the real chunk allocator sources under shuttle, with a scheduling
            // point before every atomic access (see /verif/chunksim).
            let mut r = Rng::new(run_seed(seed, "C20chunk", index));
            return json!({"kind": "chunksim", "seed": r.next_u64() >> 16, "iters": if tier == Tier::Thorough { 20000 } else { 3000 },
                          "threads": 2 + r.below(4), "rounds": 2 + r.below(5)});
        }
        let root = Rng::new(run_seed(seed, "C20", index));
        let mut wl = root.fork("workload");
        let mut sch = root.fork("schedule");
        let mut env = root.fork("env");
        let ns = 1 + wl.usize(3);
        let mut shared: Vec<Json> = Vec::new();
        let mut shared_exports: Vec<(String, Vec<(String, Kind)>)> = Vec::new();
        for i in 0..ns {
            let mut feat = Features::draw(&mut wl);
            feat.host = false;
            feat.emit_rate = 0;
            let loaded: Vec<(String, Vec<(String, Kind)>)> = shared_exports
                .iter()
                .map(|(m, ex)| (m.clone(), ex.iter().take(2).cloned().collect()))
                .collect();
            let n = 4 + wl.usize(10);
            let (stmts, exports) = gen_module(&mut wl, feat, &format!("sh{i}_"), n, &loaded, false);
            let stmts: Vec<String> = stmts.into_iter().filter(|s| !s.starts_with("emit(")).collect();
            shared.push(json!(stmts));
            shared_exports.push((format!("shared{i}"), exports));
        }
        let nt = 2 + wl.usize(5);
        let hammer_mixed = wl.bool();
        let mut threads: Vec<Vec<Json>> = vec![Vec::new(); nt];
        for t in 0..nt {
            let nops = 1 + wl.usize(4);
            for k in 0..nops {
                let mut feat = Features::draw(&mut wl);
                feat.host = false;
                // Load a few names from a shared module.
                let (m, ex) = &shared_exports[wl.usize(shared_exports.len())];
                let mut pick: Vec<(String, Kind)> = Vec::new();
                for _ in 0..3 {
                    if !ex.is_empty() {
                        let e = ex[wl.usize(ex.len())].clone();
                        if !pick.iter().any(|(p, _)| *p == e.0) {
                            pick.push(e);
                        }
                    }
                }
                let loaded = vec![(m.clone(), pick)];
                let n = 2 + wl.usize(8);
                let (stmts, _) = gen_module(&mut wl, feat, &format!("t{t}o{k}_"), n, &loaded, false);
                match wl.below(13) {
                    0..=3 => threads[t].push(json!({"op": "use", "stmts": stmts})),
                    4..=6 => {
                        threads[t].push(json!({"op": "build", "stmts": stmts, "keep": wl.bool()}));
                        if wl.chance(1, 3) {
                            threads[t].push(json!({"op": "drop_kept"}));
                        }
                    }
                    7..=9 => threads[t].push(json!({"op": "hammer", "variant": if hammer_mixed { wl.below(5) } else { t as u64 }, "n": 2 + wl.below(24)})),
                    _ => {
                        let to = (t + 1 + wl.usize(nt - 1)) % nt;
                        threads[t].push(json!({"op": "send", "to": to, "stmts": stmts}));
                        threads[to].push(json!({"op": "recv", "from": t}));
                    }
                }
            }
        }
        let np = 3 + sch.usize(3);
        let schedules: Vec<Json> = (0..np)
            .map(|_| {
                let s = sch.next_u64() >> 8;
                // With scheduling points at every atomic operation of the /repo crates there are
                // roughly ten times more points per run: horizons scale with it.
                let atomic = sch.bool();
                let k = if atomic { 1 + sch.below(12) } else { 1 };
                match sch.below(4) {
                    0 => json!({"kind": "random", "seed": s, "atomic": atomic}),
                    1 => json!({"kind": "pct", "d": 1 + sch.below(5), "horizon": (200 + sch.below(6000)) * k, "seed": s, "atomic": atomic}),
                    2 => json!({"kind": "few", "one_in": *sch.pick(&[5u64, 20, 100, 400]), "seed": s, "atomic": atomic}),
                    _ => json!({"kind": "pct", "d": 2 + sch.below(8), "horizon": (50 + sch.below(800)) * k, "seed": s, "atomic": atomic}),
                }
            })
            .collect();
        json!({"shared": shared, "threads": threads, "schedules": schedules, "quarantine": env.chance(1, 2), "max_steps": 20000, "cold": env.chance(1, 8)})
    }

    fn execute(&self, case: &Json) -> Outcome {
        let mut o = Outcome::default();
        o.digest = fnv(case.to_string().as_bytes());
        if case["kind"] == "chunksim" {
            let exe = std::env::current_exe().expect("exe");
            let bin = exe.parent().map(|p| p.join("verif-chunksim")).unwrap_or_default();
            let out = std::process::Command::new(&bin)
                .arg(case["seed"].as_u64().unwrap_or(1).to_string())
                .arg(case["iters"].as_u64().unwrap_or(1000).to_string())
                .arg(case["threads"].as_u64().unwrap_or(3).to_string())
                .arg(case["rounds"].as_u64().unwrap_or(4).to_string())
                .stdin(std::process::Stdio::null())
                .stderr(std::process::Stdio::null())
                .output();
            match out {
                Err(e) => o.violate("harness", "harness", format!("cannot run {}: {e}", bin.display())),
                Ok(out) => {
                    let text = String::from_utf8_lossy(&out.stdout);
                    match text.lines().find_map(|l| l.strip_prefix("CHUNKSIM ")).and_then(|l| serde_json::from_str::<Json>(l).ok()) {
                        None => o.violate("crash", "chunksim-crash", format!("chunk micro-world died: {:?} (memory corruption in the chunk allocator under this schedule)", out.status)),
                        Some(j) => {
                            let n = j["executions"].as_u64().unwrap_or(0);
                            o.sim_time += n;
                            o.bump("chunksim.executions", n);
                            o.bump("probe.chunksim_leaked_blocks", j["leaked_blocks"].as_u64().unwrap_or(0));
                            o.nontrivial = n > 0;
                            let problems: Vec<String> = j["problems"].as_array().map(|a| a.iter().filter_map(|x| x.as_str().map(|s| s.to_owned())).collect()).unwrap_or_default();
                            if let Some(p) = problems.first() {
                                o.violate("chunk-invariant", "chunksim", format!("execution {n}: {p}"));
                            } else if j["panicked"].as_bool().unwrap_or(false) {
                                o.violate("panic", "chunksim-panic", format!("panic inside the chunk allocator in execution {n}"));
                            }
                        }
                    }
                }
            }
            o.log_hash = fnv(format!("{:?}{:?}", o.stats, o.violation.as_ref().map(|v| v.detail.clone())).as_bytes());
            return o;
        }
        let cold = case["cold"].as_bool().unwrap_or(false);
        if cold && std::env::var_os("VERIF_NO_WARMUP").is_none() {
            // Cold start: the whole case runs in a fresh process whose process-wide lazies (globals,
            // method tables, constants, static heaps) are touched for the first time concurrently.
            let dir = std::path::PathBuf::from(format!("{}/target/scratch", out_root()));
            let _ = std::fs::create_dir_all(&dir);
            let path = dir.join(format!("c20-cold-{}-{:x}.json", std::process::id(), o.digest));
            let _ = std::fs::write(&path, serde_json::to_vec(&json!({"property": "C20", "case": case})).unwrap());
            let out = std::process::Command::new(std::env::current_exe().expect("exe"))
                .arg("exec")
                .arg(&path)
                .env("VERIF_NO_WARMUP", "1")
                .stdin(std::process::Stdio::null())
                .stderr(std::process::Stdio::null())
                .output();
            let _ = std::fs::remove_file(&path);
            match out {
                Ok(out) => {
                    let text = String::from_utf8_lossy(&out.stdout);
                    if let Some(l) = text.lines().find_map(|l| l.strip_prefix("OUTCOME ")) {
                        if let Ok(j) = serde_json::from_str::<Json>(l) {
                            let mut r = Outcome::from_json(&j);
                            r.bump("probe.cold_start_cases", 1);
                            return r;
                        }
                    }
                    o.violate("crash", "crash", format!("cold-start child died: {:?}", out.status));
                }
                Err(e) => o.violate("harness", "harness", format!("cannot spawn cold child: {e}")),
            }
            return o;
        }
        verif_hooks::set_poison(true);
        verif_hooks::set_quarantine(case["quarantine"].as_bool().unwrap_or(false));
        // In a cold process the first concurrent schedule runs BEFORE the sequential reference.
        let cold_first = if cold {
            case["schedules"].as_array().and_then(|a| a.first()).map(|p| (p.clone(), run_scenario(case, p["seed"].as_u64().unwrap_or(1), policy_from_json(p), p["atomic"].as_bool().unwrap_or(false))))
        } else {
            None
        };
        let reference = run_scenario(case, 1, Policy::Sequential, false);
        if let Some((p, r)) = &cold_first {
            o.bump("fault.context_switches", r.switches);
            o.sim_time += r.steps;
            if let Some(h) = &r.hung {
                o.violate("hang", "hang", format!("cold-start schedule {p}: {h}"));
            } else if r.deadlock {
                o.violate("deadlock", "deadlock", format!("cold-start schedule {p}"));
            } else if let Some(pn) = r.panics.first() {
                o.violate("panic", "panic", format!("cold-start schedule {p}: {pn}"));
            } else {
                for (t, (a, b)) in reference.transcripts.iter().zip(r.transcripts.iter()).enumerate() {
                    if let Some(d) = kit::diff_transcripts(a, b) {
                        o.violate("concurrent-differs-from-sequential", "transcript-cold", format!("cold-start schedule {p}: thread {t}: {d}"));
                        break;
                    }
                }
            }
            if r.site_switches.iter().enumerate().any(|(i, n)| i != 14 && *n > 0) {
                o.nontrivial = true;
            }
        }
        let mut log: Vec<String> = Vec::new();
        for t in &reference.transcripts {
            log.extend(t.iter().cloned());
            for l in t.iter().filter(|l| l.starts_with("error[")) {
                o.bump("thread_programs_ending_in_error", 1);
                if std::env::var_os("VERIF_DEBUG_OBS").is_some() {
                    let msg = l.lines().find(|x| x.starts_with("error: ")).unwrap_or(l.lines().next().unwrap_or(""));
                    o.bump(&format!("err.{}", msg.chars().take(140).collect::<String>()), 1);
                }
            }
        }
        if let Some(h) = &reference.hung {
            o.violate("hang", "hang", format!("sequential schedule: {h}"));
        }
        if reference.deadlock {
            // A deadlock under the reference schedule means the generated protocol is wrong.
            o.bump("invalid_cells", 1);
            o.log_hash = kit::hash_lines(&log);
            return o;
        }
        if let Some(p) = reference.panics.first() {
            o.violate("panic", "panic", format!("sequential schedule: {p}"));
        }
        o.sim_time += reference.steps;
        let errs = verif_hooks::chunk_errors();
        let empty = Vec::new();
        let mut digests = Vec::new();
        for (si, p) in case["schedules"].as_array().unwrap_or(&empty).iter().enumerate() {
            if o.violation.is_some() {
                break;
            }
            let r = run_scenario(case, p["seed"].as_u64().unwrap_or(1), policy_from_json(p), p["atomic"].as_bool().unwrap_or(false));
            o.sim_time += r.steps;
            o.bump("schedules_run", 1);
            o.bump("fault.context_switches", r.switches);
            if r.rescues > 0 {
                o.bump("fault.native_lock_block_rescued", r.rescues);
            }
            for i in 0..17 {
                if r.site_counts[i] > 0 {
                    o.bump(&format!("site.{}", SITE_NAMES[i]), r.site_counts[i]);
                }
                if r.site_switches[i] > 0 {
                    o.bump(&format!("probe.switch_at_{}", SITE_NAMES[i]), r.site_switches[i]);
                    if i != 14 {
                        o.nontrivial = true;
                    }
                }
            }
            digests.push(r.trace_hash);
            log.push(format!("schedule {si}: steps={} switches={} trace={:x}", r.steps, r.switches, r.trace_hash));
            let what = if p["kind"] == "forced" {
                format!("schedule #{si} (literal, {} choices, atomic points {})", p["choices"].as_array().map(|a| a.len()).unwrap_or(0), p["atomic"].as_bool().unwrap_or(false))
            } else {
                format!("schedule #{si} {p}")
            };
            let art = json!({"schedule_index": si, "seed": p["seed"], "choices": r.chosen, "atomic": p["atomic"]});
            if let Some(h) = &r.hung {
                o.violate("hang", "hang", format!("{what}: {h}"));
                o.artifact = Some(art);
                break;
            }
            if r.deadlock {
                o.violate("deadlock", "deadlock", format!("{what}: nobody runnable while threads are blocked"));
                o.artifact = Some(art);
                break;
            }
            if let Some(pn) = r.panics.first() {
                o.violate("panic", "panic", format!("{what}: {pn}"));
                o.artifact = Some(art);
                break;
            }
            if verif_hooks::chunk_errors() != errs {
                o.violate("chunk-lifecycle", "chunk", format!("{what}: chunk life-cycle assertion fired"));
                o.artifact = Some(art);
                break;
            }
            for (t, (a, b)) in reference.transcripts.iter().zip(r.transcripts.iter()).enumerate() {
                if let Some(d) = kit::diff_transcripts(a, b) {
                    o.violate("concurrent-differs-from-sequential", "transcript", format!("{what}: thread {t}: {d}"));
                    break;
                }
            }
            if r.forced_divergence {
                o.bump("forced_schedule_divergences", 1);
            }
            if o.violation.is_some() && o.artifact.is_none() {
                o.artifact = Some(json!({"schedule_index": si, "seed": p["seed"], "choices": r.chosen, "atomic": p["atomic"]}));
            }
        }
        // Distinct interleavings reached in this case.
        digests.sort();
        digests.dedup();
        o.bump("distinct_interleavings", digests.len() as u64);
        o.digest = fnv(format!("{:?}", digests).as_bytes()) ^ o.digest;
        o.log_hash = kit::hash_lines(&log);
        o
    }

    fn apply_artifact(&self, case: &Json, artifact: &Json) -> Json {
        // Replace the schedule policies by the literal choice sequence that was taken.
        let mut c = case.clone();
        c["schedules"] = json!([{"kind": "forced", "seed": artifact["seed"], "choices": artifact["choices"], "atomic": artifact["atomic"]}]);
        c
    }

    fn shrink(&self, case: &Json) -> Vec<Json> {
        let mut out = Vec::new();
        let empty = Vec::new();
        let sch = case["schedules"].as_array().unwrap_or(&empty);
        // Minimise a literal schedule: cut it (the rest runs sequentially), then remove context
        // switches window by window (the thread running at the window start keeps running).
        if sch.len() == 1 && sch[0]["kind"] == "forced" {
            let ch: Vec<u64> = sch[0]["choices"].as_array().map(|a| a.iter().filter_map(|x| x.as_u64()).collect()).unwrap_or_default();
            let n = ch.len();
            let mk = |c2: Vec<u64>| {
                let mut c = case.clone();
                c["schedules"][0]["choices"] = json!(c2);
                c
            };
            for cut in [n / 4, n / 2, n * 3 / 4, n.saturating_sub(n / 8), n.saturating_sub(1)] {
                if cut < n {
                    out.push(mk(ch[..cut].to_vec()));
                }
            }
            let mut w = n / 2;
            while w >= 1 && out.len() < 400 {
                let mut start = 0;
                while start + 1 < n {
                    let end = (start + w).min(n);
                    if ch[start..end].iter().any(|x| *x != ch[start]) {
                        let mut c2 = ch.clone();
                        for x in c2[start..end].iter_mut() {
                            *x = ch[start];
                        }
                        out.push(mk(c2));
                    }
                    start = end;
                }
                if w == 1 {
                    break;
                }
                w /= 2;
            }
        }
        if sch.len() > 1 {
            for s in sch {
                let mut c = case.clone();
                c["schedules"] = json!([s]);
                out.push(c);
            }
        }
        let threads = case["threads"].as_array().unwrap_or(&empty);
        // Remove one op of one thread (keeping send/recv balanced: replace by no-ops).
        for (t, ops) in threads.iter().enumerate() {
            let ops = ops.as_array().cloned().unwrap_or_default();
            for i in (0..ops.len()).rev() {
                let k = ops[i]["op"].as_str().unwrap_or("");
                if k == "send" || k == "recv" || k == "nop" {
                    continue;
                }
                let mut c = case.clone();
                c["threads"][t][i] = json!({"op": "nop"});
                out.push(c);
            }
        }
        let shared = case["shared"].as_array().unwrap_or(&empty);
        for (i, m) in shared.iter().enumerate() {
            let st = m.as_array().cloned().unwrap_or_default();
            for k in (0..st.len()).rev() {
                let mut s2 = st.clone();
                s2.remove(k);
                let mut c = case.clone();
                c["shared"][i] = json!(s2);
                out.push(c);
            }
        }
        out
    }
}
