//! The one PRNG of the simulator: SplitMix64 seeding a xoshiro256**.
//! Every choice in a simulated run derives from one integer.

#[derive(Clone, Debug)]
pub struct Rng {
    s: [u64; 4],
}

pub fn splitmix(x: &mut u64) -> u64 {
    *x = x.wrapping_add(0x9E37_79B9_7F4A_7C15);
    let mut z = *x;
    z = (z ^ (z >> 30)).wrapping_mul(0xBF58_476D_1CE4_E5B9);
    z = (z ^ (z >> 27)).wrapping_mul(0x94D0_49BB_1331_11EB);
    z ^ (z >> 31)
}

/// FNV-1a 64 of a string; used for stream names and digests (never std's RandomState).
pub fn fnv(s: &[u8]) -> u64 {
    let mut h: u64 = 0xcbf2_9ce4_8422_2325;
    for b in s {
        h ^= *b as u64;
        h = h.wrapping_mul(0x100_0000_01b3);
    }
    h
}

pub fn mix(a: u64, b: u64) -> u64 {
    let mut x = a ^ b.rotate_left(32) ^ 0x5851_F42D_4C95_7F2D;
    let r = splitmix(&mut x);
    r ^ splitmix(&mut x)
}

impl Rng {
    pub fn new(seed: u64) -> Rng {
        let mut x = seed;
        let s = [
            splitmix(&mut x),
            splitmix(&mut x),
            splitmix(&mut x),
            splitmix(&mut x),
        ];
        Rng { s }
    }

    /// Split off an independent sub-stream, named; does not advance `self`.
    pub fn fork(&self, name: &str) -> Rng {
        Rng::new(mix(self.s[0] ^ self.s[2], fnv(name.as_bytes())))
    }

    pub fn next_u64(&mut self) -> u64 {
        let result = self.s[1].wrapping_mul(5).rotate_left(7).wrapping_mul(9);
        let t = self.s[1] << 17;
        self.s[2] ^= self.s[0];
        self.s[3] ^= self.s[1];
        self.s[1] ^= self.s[2];
        self.s[0] ^= self.s[3];
        self.s[2] ^= t;
        self.s[3] = self.s[3].rotate_left(45);
        result
    }

    /// Uniform in 0..n (n > 0).
    pub fn below(&mut self, n: u64) -> u64 {
        debug_assert!(n > 0);
        // Multiply-shift; bias is irrelevant here.
        ((self.next_u64() as u128 * n as u128) >> 64) as u64
    }

    pub fn range(&mut self, lo: i64, hi_incl: i64) -> i64 {
        lo + self.below((hi_incl - lo + 1) as u64) as i64
    }

    pub fn usize(&mut self, n: usize) -> usize {
        self.below(n as u64) as usize
    }

    pub fn chance(&mut self, num: u64, den: u64) -> bool {
        self.below(den) < num
    }

    pub fn bool(&mut self) -> bool {
        self.next_u64() & 1 == 1
    }

    pub fn pick<'a, T>(&mut self, xs: &'a [T]) -> &'a T {
        &xs[self.usize(xs.len())]
    }

    pub fn shuffle<T>(&mut self, xs: &mut [T]) {
        for i in (1..xs.len()).rev() {
            let j = self.usize(i + 1);
            xs.swap(i, j);
        }
    }
}
