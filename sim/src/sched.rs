//! Dispatch of the `/repo` scheduling-point hook (`verif_hooks::sched_point`) to whatever the
//! current simulated thread has installed: a per-thread tick callback (the simulated clock of
//! C15) and/or the cooperative scheduler of C20.

use std::cell::RefCell;

use starlark::verif_hooks;
use starlark::verif_hooks::Site;

thread_local! {
    static TICK_HOOK: RefCell<Option<Box<dyn FnMut()>>> = const { RefCell::new(None) };
    static SITE_HOOK: RefCell<Option<Box<dyn FnMut(Site)>>> = const { RefCell::new(None) };
}

fn dispatch(site: Site) {
    if site == Site::Tick {
        // `try_with`: scheduling points are also reached from thread-local destructors.
        let _ = TICK_HOOK.try_with(|h| {
            if let Ok(mut h) = h.try_borrow_mut() {
                if let Some(f) = h.as_mut() {
                    f();
                }
            }
        });
    }
    let _ = SITE_HOOK.try_with(|h| {
        if let Ok(mut h) = h.try_borrow_mut() {
            if let Some(f) = h.as_mut() {
                f(site);
            }
        }
    });
}

/// Install the process-wide dispatcher (idempotent).
pub fn install() {
    verif_hooks::set_sched_hook(Some(dispatch));
}

/// Per-thread callback invoked at every evaluator tick (call or loop back-edge).
pub fn set_tick_hook(f: Option<Box<dyn FnMut()>>) {
    TICK_HOOK.with(|h| *h.borrow_mut() = f);
}

/// Per-thread callback invoked at every scheduling point (including ticks).
pub fn set_site_hook(f: Option<Box<dyn FnMut(Site)>>) {
    SITE_HOOK.with(|h| *h.borrow_mut() = f);
}

// ---------------------------------------------------------------------------------------------
// Cooperative scheduler over real OS threads (C20).
//
// A simulated thread runs only while it holds the baton (`current == tid`). At every scheduling
// point the running thread records (tid, site), draws the next thread from the runnable set with
// the schedule PRNG and hands the baton over. Blocking only happens at simulator-level `recv`,
// so the scheduler always knows who can run.

use std::collections::VecDeque;
use std::sync::Arc;
use std::sync::Condvar;
use std::sync::Mutex;

use crate::rng::Rng;

#[derive(Copy, Clone, PartialEq, Eq, Debug)]
pub enum TState {
    Runnable,
    Blocked,
    Finished,
}

#[derive(Clone, Debug)]
pub enum Policy {
    /// Run the current thread to completion; switch only when it blocks or finishes (lowest tid first).
    Sequential,
    /// Uniformly random among runnable threads at every point.
    Random,
    /// PCT-style: random priorities, `d` priority change points at random steps.
    Pct { d: u32, horizon: u64 },
    /// Continue the current thread; preempt with probability 1/`one_in`.
    FewPreemptions { one_in: u64 },
    /// Replay a recorded choice sequence (falls back to Sequential when exhausted or infeasible).
    Forced(Vec<u8>),
}

pub struct Inner<M> {
    pub states: Vec<TState>,
    pub current: usize,
    pub rng: Rng,
    pub policy: Policy,
    pub steps: u64,
    pub max_steps: u64,
    pub chosen: Vec<u8>,
    pub switches: u64,
    pub trace_hash: u64,
    pub site_counts: [u64; 16],
    pub site_switches: [u64; 16],
    /// mailboxes[to][from]
    pub mailboxes: Vec<Vec<VecDeque<M>>>,
    /// Which sender a blocked thread is waiting for.
    pub waiting_for: Vec<Option<usize>>,
    pub abort: bool,
    pub deadlock: bool,
    pub forced_divergence: bool,
    prio: Vec<u64>,
    change_points: Vec<u64>,
    /// Threads are released one at a time to run their thread-local destructors.
    pub exit_turn: Option<usize>,
    pub last_progress: std::time::Instant,
    pub last_site: Option<(usize, Site)>,
}

pub struct Coop<M> {
    pub inner: Mutex<Inner<M>>,
    cvs: Vec<Condvar>,
    pub main_cv: Condvar,
}

impl<M> Coop<M> {
    pub fn new(n: usize, seed: u64, policy: Policy, max_steps: u64) -> Arc<Coop<M>> {
        let mut rng = Rng::new(seed);
        let prio: Vec<u64> = (0..n).map(|_| 1000 + rng.below(1000)).collect();
        let change_points = match &policy {
            Policy::Pct { d, horizon } => (0..*d).map(|_| rng.below((*horizon).max(1))).collect(),
            _ => Vec::new(),
        };
        Arc::new(Coop {
            inner: Mutex::new(Inner {
                states: vec![TState::Runnable; n],
                current: 0,
                rng,
                policy,
                steps: 0,
                max_steps,
                chosen: Vec::new(),
                switches: 0,
                trace_hash: 0xcbf2_9ce4_8422_2325,
                site_counts: [0; 16],
                site_switches: [0; 16],
                mailboxes: (0..n).map(|_| (0..n).map(|_| VecDeque::new()).collect()).collect(),
                waiting_for: vec![None; n],
                abort: false,
                deadlock: false,
                forced_divergence: false,
                prio,
                change_points,
                exit_turn: None,
                last_progress: std::time::Instant::now(),
                last_site: None,
            }),
            cvs: (0..n).map(|_| Condvar::new()).collect(),
            main_cv: Condvar::new(),
        })
    }

    fn choose(g: &mut Inner<M>, me: Option<usize>) -> Option<usize> {
        let runnable: Vec<usize> = (0..g.states.len()).filter(|t| g.states[*t] == TState::Runnable).collect();
        if runnable.is_empty() {
            return None;
        }
        let me_runnable = me.filter(|m| runnable.contains(m));
        let over = g.steps > g.max_steps;
        let pick = if over {
            me_runnable.unwrap_or(runnable[0])
        } else {
            match &mut g.policy {
                Policy::Sequential => me_runnable.unwrap_or(runnable[0]),
                Policy::Random => runnable[g.rng.usize(runnable.len())],
                Policy::FewPreemptions { one_in } => {
                    let one_in = *one_in;
                    match me_runnable {
                        Some(m) if g.rng.below(one_in.max(1)) != 0 => m,
                        _ => runnable[g.rng.usize(runnable.len())],
                    }
                }
                Policy::Pct { .. } => {
                    if g.change_points.contains(&g.steps) {
                        if let Some(m) = me_runnable {
                            g.prio[m] = g.rng.below(900);
                        }
                    }
                    *runnable.iter().max_by_key(|t| (g.prio[**t], usize::MAX - **t)).unwrap()
                }
                Policy::Forced(choices) => {
                    let i = g.chosen.len();
                    match choices.get(i) {
                        Some(c) if runnable.contains(&(*c as usize)) => *c as usize,
                        Some(_) => {
                            g.forced_divergence = true;
                            me_runnable.unwrap_or(runnable[0])
                        }
                        None => me_runnable.unwrap_or(runnable[0]),
                    }
                }
            }
        };
        g.chosen.push(pick as u8);
        Some(pick)
    }

    /// Block the calling simulated thread until it holds the baton.
    fn wait_turn<'a>(&'a self, me: usize, mut g: std::sync::MutexGuard<'a, Inner<M>>) -> std::sync::MutexGuard<'a, Inner<M>> {
        while g.current != me && !g.abort {
            g = self.cvs[me].wait(g).unwrap_or_else(|e| e.into_inner());
        }
        g
    }

    fn hand_over<'a>(&'a self, me: usize, next: usize, mut g: std::sync::MutexGuard<'a, Inner<M>>) -> std::sync::MutexGuard<'a, Inner<M>> {
        if next != me {
            g.switches += 1;
            g.current = next;
            self.cvs[next].notify_one();
        }
        g
    }

    /// Let the policy choose which thread runs first.
    pub fn pick_initial(&self) {
        let mut g = self.inner.lock().unwrap_or_else(|e| e.into_inner());
        if let Some(t) = Self::choose(&mut g, None) {
            g.current = t;
        }
    }

    /// First thing a simulated thread does.
    pub fn start(&self, me: usize) {
        let g = self.inner.lock().unwrap_or_else(|e| e.into_inner());
        drop(self.wait_turn(me, g));
    }

    pub fn yield_point(&self, me: usize, site: Site) {
        let mut g = self.inner.lock().unwrap_or_else(|e| e.into_inner());
        if g.abort {
            return;
        }
        g.steps += 1;
        g.last_progress = std::time::Instant::now();
        g.last_site = Some((me, site));
        let s = site as usize;
        g.site_counts[s % 16] += 1;
        g.trace_hash = crate::rng::mix(g.trace_hash, ((me as u64) << 8) | s as u64);
        if let Some(next) = Self::choose(&mut g, Some(me)) {
            if next != me {
                g.site_switches[s % 16] += 1;
                let g = self.hand_over(me, next, g);
                drop(self.wait_turn(me, g));
            }
        }
    }

    pub fn send(&self, me: usize, to: usize, item: M) {
        {
            let mut g = self.inner.lock().unwrap_or_else(|e| e.into_inner());
            g.mailboxes[to][me].push_back(item);
            if g.states[to] == TState::Blocked && g.waiting_for[to] == Some(me) {
                g.states[to] = TState::Runnable;
                g.waiting_for[to] = None;
            }
        }
        self.yield_point(me, Site::LazyInit);
    }

    /// Receive from the own mailbox; `None` only if the simulation was aborted (deadlock).
    pub fn recv(&self, me: usize, from: usize) -> Option<M> {
        loop {
            let mut g = self.inner.lock().unwrap_or_else(|e| e.into_inner());
            if let Some(x) = g.mailboxes[me][from].pop_front() {
                return Some(x);
            }
            if g.abort {
                return None;
            }
            g.states[me] = TState::Blocked;
            g.waiting_for[me] = Some(from);
            g.last_progress = std::time::Instant::now();
            match Self::choose(&mut g, None) {
                Some(next) => {
                    let g = self.hand_over(me, next, g);
                    drop(self.wait_turn(me, g));
                }
                None => {
                    // Nobody can run and we are waiting: deadlock.
                    g.deadlock = true;
                    g.abort = true;
                    for cv in &self.cvs {
                        cv.notify_all();
                    }
                    self.main_cv.notify_all();
                    return None;
                }
            }
        }
    }

    /// The simulated thread has finished its workload (but stays alive until released).
    pub fn finish(&self, me: usize) {
        let mut g = self.inner.lock().unwrap_or_else(|e| e.into_inner());
        g.states[me] = TState::Finished;
        g.last_progress = std::time::Instant::now();
        if !g.abort {
            match Self::choose(&mut g, None) {
                Some(next) => {
                    g = self.hand_over(me, next, g);
                }
                None => {
                    if g.states.iter().any(|s| *s == TState::Blocked) {
                        g.deadlock = true;
                        g.abort = true;
                        for cv in &self.cvs {
                            cv.notify_all();
                        }
                    }
                }
            }
        }
        self.main_cv.notify_all();
        // Wait to be released for exit (thread-local destructors run one thread at a time).
        while g.exit_turn != Some(me) {
            g = self.cvs[me].wait(g).unwrap_or_else(|e| e.into_inner());
        }
    }

    pub fn release_for_exit(&self, t: usize) {
        let mut g = self.inner.lock().unwrap_or_else(|e| e.into_inner());
        g.exit_turn = Some(t);
        self.cvs[t].notify_all();
    }
}
