//! Dispatch of the `/repo` scheduling-point hook (`verif_hooks::sched_point`) to whatever the
//! current simulated thread has installed: a per-thread tick callback (the simulated clock of
//! C15) and/or the cooperative scheduler of C20.

use std::cell::RefCell;

use starlark::verif_hooks;
use starlark::verif_hooks::Site;

thread_local! {
    static TICK_HOOK: RefCell<Option<Box<dyn FnMut()>>> = const { RefCell::new(None) };
    static SITE_HOOK: RefCell<Option<Box<dyn FnMut(Site)>>> = const { RefCell::new(None) };
}

fn dispatch(site: Site) {
    if site == Site::Tick {
        // `try_with`: scheduling points are also reached from thread-local destructors.
        let _ = TICK_HOOK.try_with(|h| {
            if let Ok(mut h) = h.try_borrow_mut() {
                if let Some(f) = h.as_mut() {
                    f();
                }
            }
        });
    }
    let _ = SITE_HOOK.try_with(|h| {
        if let Ok(mut h) = h.try_borrow_mut() {
            if let Some(f) = h.as_mut() {
                f(site);
            }
        }
    });
}

/// Install the process-wide dispatcher (idempotent).
pub fn install() {
    verif_hooks::set_sched_hook(Some(dispatch));
}

/// Per-thread callback invoked at every evaluator tick (call or loop back-edge).
pub fn set_tick_hook(f: Option<Box<dyn FnMut()>>) {
    TICK_HOOK.with(|h| *h.borrow_mut() = f);
}

/// Per-thread callback invoked at every scheduling point (including ticks).
pub fn set_site_hook(f: Option<Box<dyn FnMut(Site)>>) {
    SITE_HOOK.with(|h| *h.borrow_mut() = f);
}

// ---------------------------------------------------------------------------------------------
// Cooperative scheduler over real OS threads (C20).
//
// A simulated thread runs only while it holds the baton (`current == tid`). At every scheduling
// point the running thread records (tid, site), draws the next thread from the runnable set with
// the schedule PRNG and hands the baton over. Blocking only happens at simulator-level `recv`,
// so the scheduler always knows who can run.

use std::collections::VecDeque;
use std::sync::Arc;
use std::sync::Condvar;
use std::sync::Mutex;

use crate::rng::Rng;

#[derive(Copy, Clone, PartialEq, Eq, Debug)]
pub enum TState {
    Runnable,
    Blocked,
    Finished,
    /// Holds no baton any more: it blocked inside the code under test on a native lock whose
    /// owner is parked (see `try_rescue`); becomes Runnable again at its next scheduler entry.
    NativeBlocked,
}

#[derive(Clone, Debug)]
pub enum Policy {
    /// Run the current thread to completion; switch only when it blocks or finishes (lowest tid first).
    Sequential,
    /// Uniformly random among runnable threads at every point.
    Random,
    /// PCT-style: random priorities, `d` priority change points at random steps.
    Pct { d: u32, horizon: u64 },
    /// Continue the current thread; preempt with probability 1/`one_in`.
    FewPreemptions { one_in: u64 },
    /// Replay a recorded choice sequence (falls back to Sequential when exhausted or infeasible).
    Forced(Vec<u8>),
}

pub struct Inner<M> {
    pub states: Vec<TState>,
    pub current: usize,
    pub rng: Rng,
    pub policy: Policy,
    pub steps: u64,
    pub max_steps: u64,
    pub chosen: Vec<u8>,
    pub switches: u64,
    pub trace_hash: u64,
    pub site_counts: [u64; 32],
    pub site_switches: [u64; 32],
    /// mailboxes[to][from]
    pub mailboxes: Vec<Vec<VecDeque<M>>>,
    /// Which sender a blocked thread is waiting for.
    pub waiting_for: Vec<Option<usize>>,
    pub abort: bool,
    pub deadlock: bool,
    pub forced_divergence: bool,
    prio: Vec<u64>,
    change_points: Vec<u64>,
    /// Threads are released one at a time to run their thread-local destructors.
    pub exit_turn: Option<usize>,
    pub last_progress: std::time::Instant,
    pub last_site: Option<(usize, Site)>,
    /// OS thread ids of the simulated threads (for the native-block probe).
    pub os_tids: Vec<i32>,
    /// Step at which each thread was last pre-empted (handed the baton over while runnable).
    pub preempted_at: Vec<u64>,
    pub rescues: u64,
}

/// `current` when nobody holds the baton (everybody else waits and a natively blocked thread is
/// expected to come back).
pub const NOBODY: usize = usize::MAX;

pub struct Coop<M> {
    pub inner: Mutex<Inner<M>>,
    cvs: Vec<Condvar>,
    pub main_cv: Condvar,
}

impl<M> Coop<M> {
    pub fn new(n: usize, seed: u64, policy: Policy, max_steps: u64) -> Arc<Coop<M>> {
        let mut rng = Rng::new(seed);
        let prio: Vec<u64> = (0..n).map(|_| 1000 + rng.below(1000)).collect();
        let change_points = match &policy {
            Policy::Pct { d, horizon } => (0..*d).map(|_| rng.below((*horizon).max(1))).collect(),
            _ => Vec::new(),
        };
        Arc::new(Coop {
            inner: Mutex::new(Inner {
                states: vec![TState::Runnable; n],
                current: 0,
                rng,
                policy,
                steps: 0,
                max_steps,
                chosen: Vec::new(),
                switches: 0,
                trace_hash: 0xcbf2_9ce4_8422_2325,
                site_counts: [0; 32],
                site_switches: [0; 32],
                mailboxes: (0..n).map(|_| (0..n).map(|_| VecDeque::new()).collect()).collect(),
                waiting_for: vec![None; n],
                abort: false,
                deadlock: false,
                forced_divergence: false,
                prio,
                change_points,
                exit_turn: None,
                last_progress: std::time::Instant::now(),
                last_site: None,
                os_tids: vec![0; n],
                preempted_at: vec![0; n],
                rescues: 0,
            }),
            cvs: (0..n).map(|_| Condvar::new()).collect(),
            main_cv: Condvar::new(),
        })
    }

    fn choose(g: &mut Inner<M>, me: Option<usize>) -> Option<usize> {
        let runnable: Vec<usize> = (0..g.states.len()).filter(|t| g.states[*t] == TState::Runnable).collect();
        if runnable.is_empty() {
            return None;
        }
        let me_runnable = me.filter(|m| runnable.contains(m));
        let over = g.steps > g.max_steps;
        let pick = if over {
            me_runnable.unwrap_or(runnable[0])
        } else {
            match &mut g.policy {
                Policy::Sequential => me_runnable.unwrap_or(runnable[0]),
                Policy::Random => runnable[g.rng.usize(runnable.len())],
                Policy::FewPreemptions { one_in } => {
                    let one_in = *one_in;
                    match me_runnable {
                        Some(m) if g.rng.below(one_in.max(1)) != 0 => m,
                        _ => runnable[g.rng.usize(runnable.len())],
                    }
                }
                Policy::Pct { .. } => {
                    if g.change_points.contains(&g.steps) {
                        if let Some(m) = me_runnable {
                            g.prio[m] = g.rng.below(900);
                        }
                    }
                    *runnable.iter().max_by_key(|t| (g.prio[**t], usize::MAX - **t)).unwrap()
                }
                Policy::Forced(choices) => {
                    let i = g.chosen.len();
                    match choices.get(i) {
                        Some(c) if runnable.contains(&(*c as usize)) => *c as usize,
                        Some(_) => {
                            g.forced_divergence = true;
                            me_runnable.unwrap_or(runnable[0])
                        }
                        None => me_runnable.unwrap_or(runnable[0]),
                    }
                }
            }
        };
        g.chosen.push(pick as u8);
        Some(pick)
    }

    /// Block the calling simulated thread until it holds the baton.
    fn wait_turn<'a>(&'a self, me: usize, mut g: std::sync::MutexGuard<'a, Inner<M>>) -> std::sync::MutexGuard<'a, Inner<M>> {
        while g.current != me && !g.abort {
            g = self.cvs[me].wait(g).unwrap_or_else(|e| e.into_inner());
        }
        g
    }

    fn hand_over<'a>(&'a self, me: usize, next: usize, mut g: std::sync::MutexGuard<'a, Inner<M>>) -> std::sync::MutexGuard<'a, Inner<M>> {
        if next != me {
            g.switches += 1;
            g.preempted_at[me] = g.steps;
            g.current = next;
            self.cvs[next].notify_one();
        }
        g
    }

    /// A thread that was rescued from a native block re-enters the scheduler without the baton:
    /// it becomes runnable again and waits for its turn.
    fn reenter<'a>(&'a self, me: usize, mut g: std::sync::MutexGuard<'a, Inner<M>>) -> std::sync::MutexGuard<'a, Inner<M>> {
        if g.current != me && !g.abort {
            if g.states[me] == TState::NativeBlocked {
                g.states[me] = TState::Runnable;
            }
            if g.current == NOBODY || g.states[g.current] != TState::Runnable {
                // Nobody can hand the baton over any more: take it.
                g.current = me;
            } else {
                g = self.wait_turn(me, g);
            }
        }
        g
    }

    /// Called by the watchdog when no scheduling point was passed for a while. If the baton holder
    /// sleeps in the kernel (it blocked on a lock of the code under test whose owner is parked at a
    /// scheduling point), the baton is taken from it and given to the most recently pre-empted
    /// runnable thread, which will release the lock on its way to its next scheduling point. The
    /// decision depends only on simulator state, not on timing. Returns whether a rescue happened.
    pub fn try_rescue(&self) -> bool {
        // Look without holding the scheduler lock (the baton holder may be about to enter it).
        let (cur, tid, steps) = {
            let g = self.inner.lock().unwrap_or_else(|e| e.into_inner());
            if g.abort || g.current == NOBODY || g.states[g.current] != TState::Runnable {
                return false;
            }
            (g.current, g.os_tids[g.current], g.steps)
        };
        if tid == 0 || !thread_sleeps(tid) {
            return false;
        }
        let mut g = self.inner.lock().unwrap_or_else(|e| e.into_inner());
        if g.abort || g.current != cur || g.steps != steps || g.states[cur] != TState::Runnable {
            return false;
        }
        let cand = (0..g.states.len()).filter(|t| *t != cur && g.states[*t] == TState::Runnable).max_by_key(|t| (g.preempted_at[*t], usize::MAX - *t));
        let Some(next) = cand else { return false };
        g.states[cur] = TState::NativeBlocked;
        g.rescues += 1;
        g.last_progress = std::time::Instant::now();
        g.current = next;
        g.chosen.push(next as u8);
        self.cvs[next].notify_one();
        true
    }

    /// Let the policy choose which thread runs first.
    pub fn pick_initial(&self) {
        let mut g = self.inner.lock().unwrap_or_else(|e| e.into_inner());
        if let Some(t) = Self::choose(&mut g, None) {
            g.current = t;
        }
    }

    /// First thing a simulated thread does.
    pub fn start(&self, me: usize) {
        let mut g = self.inner.lock().unwrap_or_else(|e| e.into_inner());
        g.os_tids[me] = unsafe { libc::syscall(libc::SYS_gettid) } as i32;
        drop(self.wait_turn(me, g));
    }

    pub fn yield_point(&self, me: usize, site: Site) {
        let g = self.inner.lock().unwrap_or_else(|e| e.into_inner());
        if g.abort {
            return;
        }
        let mut g = self.reenter(me, g);
        if g.abort {
            return;
        }
        g.steps += 1;
        g.last_progress = std::time::Instant::now();
        g.last_site = Some((me, site));
        let s = site as usize;
        g.site_counts[s % 32] += 1;
        g.trace_hash = crate::rng::mix(g.trace_hash, ((me as u64) << 8) | s as u64);
        if let Some(next) = Self::choose(&mut g, Some(me)) {
            if next != me {
                g.site_switches[s % 32] += 1;
                let g = self.hand_over(me, next, g);
                drop(self.wait_turn(me, g));
            }
        }
    }

    pub fn send(&self, me: usize, to: usize, item: M) {
        {
            let g = self.inner.lock().unwrap_or_else(|e| e.into_inner());
            let mut g = self.reenter(me, g);
            g.mailboxes[to][me].push_back(item);
            if g.states[to] == TState::Blocked && g.waiting_for[to] == Some(me) {
                g.states[to] = TState::Runnable;
                g.waiting_for[to] = None;
            }
        }
        self.yield_point(me, Site::LazyInit);
    }

    /// Receive from the own mailbox; `None` only if the simulation was aborted (deadlock).
    pub fn recv(&self, me: usize, from: usize) -> Option<M> {
        loop {
            let g = self.inner.lock().unwrap_or_else(|e| e.into_inner());
            let mut g = self.reenter(me, g);
            if let Some(x) = g.mailboxes[me][from].pop_front() {
                return Some(x);
            }
            if g.abort {
                return None;
            }
            g.states[me] = TState::Blocked;
            g.waiting_for[me] = Some(from);
            g.last_progress = std::time::Instant::now();
            match Self::choose(&mut g, None) {
                Some(next) => {
                    let g = self.hand_over(me, next, g);
                    drop(self.wait_turn(me, g));
                }
                None if g.states.iter().any(|s| *s == TState::NativeBlocked) => {
                    // A natively blocked (rescued) thread will come back and take the baton.
                    g.current = NOBODY;
                    drop(self.wait_turn(me, g));
                }
                None => {
                    // Nobody can run and we are waiting: deadlock.
                    g.deadlock = true;
                    g.abort = true;
                    for cv in &self.cvs {
                        cv.notify_all();
                    }
                    self.main_cv.notify_all();
                    return None;
                }
            }
        }
    }

    /// The simulated thread has finished its workload (but stays alive until released).
    pub fn finish(&self, me: usize) {
        let g = self.inner.lock().unwrap_or_else(|e| e.into_inner());
        let mut g = self.reenter(me, g);
        g.states[me] = TState::Finished;
        g.last_progress = std::time::Instant::now();
        if !g.abort {
            match Self::choose(&mut g, None) {
                Some(next) => {
                    g = self.hand_over(me, next, g);
                }
                None if g.states.iter().any(|s| *s == TState::NativeBlocked) => {
                    g.current = NOBODY;
                }
                None => {
                    if g.states.iter().any(|s| *s == TState::Blocked) {
                        g.deadlock = true;
                        g.abort = true;
                        for cv in &self.cvs {
                            cv.notify_all();
                        }
                    }
                }
            }
        }
        self.main_cv.notify_all();
        // Wait to be released for exit (thread-local destructors run one thread at a time).
        while g.exit_turn != Some(me) {
            g = self.cvs[me].wait(g).unwrap_or_else(|e| e.into_inner());
        }
    }

    pub fn release_for_exit(&self, t: usize) {
        let mut g = self.inner.lock().unwrap_or_else(|e| e.into_inner());
        g.exit_turn = Some(t);
        self.cvs[t].notify_all();
    }
}

/// Does the OS thread sleep in the kernel (state S or D in /proc/self/task/<tid>/stat), twice in a
/// row 30 ms apart without having been scheduled in between?
fn thread_sleeps(tid: i32) -> bool {
    fn probe(tid: i32) -> Option<(char, String)> {
        let stat = std::fs::read_to_string(format!("/proc/self/task/{tid}/stat")).ok()?;
        let rest = &stat[stat.rfind(')')? + 1..];
        let state = rest.trim_start().chars().next()?;
        let sw = std::fs::read_to_string(format!("/proc/self/task/{tid}/status")).ok()?;
        let ctx: String = sw.lines().filter(|l| l.contains("ctxt_switches")).collect::<Vec<_>>().join(";");
        Some((state, ctx))
    }
    // Blocked in futex(2) (syscall 202 on x86-64), when the kernel lets us see it.
    let in_futex = |tid: i32| -> Option<bool> {
        let t = std::fs::read_to_string(format!("/proc/self/task/{tid}/syscall")).ok()?;
        let first = t.split_whitespace().next()?;
        if first == "running" {
            return Some(false);
        }
        first.parse::<i64>().ok().map(|n| n == 202)
    };
    if in_futex(tid) == Some(false) {
        return false;
    }
    let Some((s1, c1)) = probe(tid) else { return false };
    if s1 != 'S' && s1 != 'D' {
        return false;
    }
    std::thread::sleep(std::time::Duration::from_millis(30));
    let Some((s2, c2)) = probe(tid) else { return false };
    (s2 == 'S' || s2 == 'D') && c1 == c2
}
