//! Dispatch of the `/repo` scheduling-point hook (`verif_hooks::sched_point`) to whatever the
//! current simulated thread has installed: a per-thread tick callback (the simulated clock of
//! C15) and/or the cooperative scheduler of C20.

use std::cell::RefCell;

use starlark::verif_hooks;
use starlark::verif_hooks::Site;

thread_local! {
    static TICK_HOOK: RefCell<Option<Box<dyn FnMut()>>> = const { RefCell::new(None) };
    static SITE_HOOK: RefCell<Option<Box<dyn FnMut(Site)>>> = const { RefCell::new(None) };
}

fn dispatch(site: Site) {
    if site == Site::Tick {
        // `try_with`: scheduling points are also reached from thread-local destructors.
        let _ = TICK_HOOK.try_with(|h| {
            if let Ok(mut h) = h.try_borrow_mut() {
                if let Some(f) = h.as_mut() {
                    f();
                }
            }
        });
    }
    let _ = SITE_HOOK.try_with(|h| {
        if let Ok(mut h) = h.try_borrow_mut() {
            if let Some(f) = h.as_mut() {
                f(site);
            }
        }
    });
}

/// Install the process-wide dispatcher (idempotent).
pub fn install() {
    verif_hooks::set_sched_hook(Some(dispatch));
}

/// Per-thread callback invoked at every evaluator tick (call or loop back-edge).
pub fn set_tick_hook(f: Option<Box<dyn FnMut()>>) {
    TICK_HOOK.with(|h| *h.borrow_mut() = f);
}

/// Per-thread callback invoked at every scheduling point (including ticks).
pub fn set_site_hook(f: Option<Box<dyn FnMut(Site)>>) {
    SITE_HOOK.with(|h| *h.borrow_mut() = f);
}
