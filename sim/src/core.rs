//! Simulator core: worlds, outcomes, the parent/worker process protocol,
//! replay, minimisation, known findings and evidence.

use std::collections::BTreeMap;
use std::collections::BTreeSet;
use std::io::BufRead;
use std::io::BufReader;
use std::io::Write;
use std::os::unix::process::ExitStatusExt;
use std::process::Command;
use std::process::Stdio;
use std::sync::Arc;
use std::sync::Mutex;
use std::sync::atomic::AtomicBool;
use std::sync::atomic::AtomicU64;
use std::sync::atomic::Ordering;
use std::time::Duration;
use std::time::Instant;

use serde_json::Value as Json;
use serde_json::json;

use crate::rng::fnv;
use crate::rng::mix;

pub const HARNESS_VERSION: u64 = 1;
pub const DEFAULT_SEED: u64 = 20260923;

#[derive(Copy, Clone, Debug, PartialEq, Eq)]
pub enum Tier {
    Quick,
    Thorough,
}

impl Tier {
    pub fn name(self) -> &'static str {
        match self {
            Tier::Quick => "quick",
            Tier::Thorough => "thorough",
        }
    }
    pub fn parse(s: &str) -> Option<Tier> {
        match s {
            "quick" => Some(Tier::Quick),
            "thorough" => Some(Tier::Thorough),
            _ => None,
        }
    }
}

#[derive(Clone, Debug)]
pub struct Violation {
    /// Coarse class, stable under minimisation (e.g. "transcript-mismatch", "panic", "crash").
    pub class: String,
    /// Key used to match known findings (e.g. "for-stmt/error").
    pub key: String,
    pub detail: String,
}

#[derive(Clone, Debug, Default)]
pub struct Outcome {
    pub violation: Option<Violation>,
    /// Counters: faults fired by kind, probes, ... aggregated by the parent.
    pub stats: BTreeMap<String, u64>,
    /// Digest of (workload, decision/fault sequence).
    pub digest: u64,
    /// Did at least one fault / collection / switch / drop actually happen?
    pub nontrivial: bool,
    /// Simulated time covered (unit stated by the world).
    pub sim_time: u64,
    /// Hash of the complete event log of the run (for the determinism recheck).
    pub log_hash: u64,
    /// Deviations that match the model of a defect recorded in known_findings.json: (key, detail).
    /// They do not stop the run; the parent reports them as KNOWN-FINDING if (and only if) the key is
    /// listed in the known-findings file, and as a violation otherwise.
    pub known: Vec<(String, String)>,
    /// Data recorded during a violating run that makes the replay literal (e.g. the schedule
    /// actually taken); merged into the case by `World::apply_artifact` before minimisation.
    pub artifact: Option<Json>,
}

impl Outcome {
    pub fn bump(&mut self, k: &str, n: u64) {
        *self.stats.entry(k.to_owned()).or_insert(0) += n;
    }
    pub fn violate(&mut self, class: &str, key: &str, detail: String) {
        if self.violation.is_none() {
            self.violation = Some(Violation {
                class: class.to_owned(),
                key: key.to_owned(),
                detail,
            });
        }
    }
    pub fn note_known(&mut self, key: &str, detail: String) {
        if !self.known.iter().any(|(k, _)| k == key) {
            self.known.push((key.to_owned(), detail));
        }
    }
    pub fn to_json(&self) -> Json {
        let mut j = json!({
            "known": self.known,
            "artifact": self.artifact,
            "stats": self.stats,
            "digest": self.digest,
            "nontrivial": self.nontrivial,
            "sim_time": self.sim_time,
            "log_hash": self.log_hash,
        });
        if let Some(v) = &self.violation {
            j["violation"] = json!({"class": v.class, "key": v.key, "detail": v.detail});
        }
        j
    }
    pub fn from_json(j: &Json) -> Outcome {
        let mut o = Outcome::default();
        if let Some(m) = j["stats"].as_object() {
            for (k, v) in m {
                o.stats.insert(k.clone(), v.as_u64().unwrap_or(0));
            }
        }
        o.digest = j["digest"].as_u64().unwrap_or(0);
        o.nontrivial = j["nontrivial"].as_bool().unwrap_or(false);
        o.sim_time = j["sim_time"].as_u64().unwrap_or(0);
        o.log_hash = j["log_hash"].as_u64().unwrap_or(0);
        if !j["artifact"].is_null() {
            o.artifact = Some(j["artifact"].clone());
        }
        if let Some(a) = j["known"].as_array() {
            for x in a {
                o.known.push((x[0].as_str().unwrap_or("").to_owned(), x[1].as_str().unwrap_or("").to_owned()));
            }
        }
        if let Some(v) = j.get("violation") {
            o.violation = Some(Violation {
                class: v["class"].as_str().unwrap_or("").to_owned(),
                key: v["key"].as_str().unwrap_or("").to_owned(),
                detail: v["detail"].as_str().unwrap_or("").to_owned(),
            });
        }
        o
    }
}

pub struct Budget {
    pub runs: u64,
    pub wall_s: u64,
    /// Runs per worker process (workers are recycled after this many).
    pub block: u64,
    /// Seeds re-run for the determinism recheck.
    pub recheck: u64,
    /// Per-run timeout (seconds of silence from a worker) before the run counts as hung.
    pub hang_s: u64,
}

pub struct Describe {
    pub level: &'static str,
    pub rule: &'static str,
    pub sim_time_unit: &'static str,
    pub real_components: Vec<&'static str>,
    pub stub_components: Vec<&'static str>,
    pub assumptions: Vec<&'static str>,
    pub exhaustive: bool,
}

pub trait World: Sync {
    fn id(&self) -> &'static str;
    fn describe(&self) -> Describe;
    fn budget(&self, tier: Tier) -> Budget;
    /// Pure function of (seed, index, tier): the literal case (workload + fault plan + decisions).
    fn generate(&self, seed: u64, index: u64, tier: Tier) -> Json;
    /// Execute one case against the real code. May crash the process on memory corruption.
    fn execute(&self, case: &Json) -> Outcome;
    /// Candidate smaller cases, most aggressive first.
    fn shrink(&self, case: &Json) -> Vec<Json> {
        let _ = case;
        Vec::new()
    }
    /// Make a case literal with what a violating run recorded (e.g. replace a schedule policy by the
    /// choice sequence actually taken).
    fn apply_artifact(&self, case: &Json, _artifact: &Json) -> Json {
        case.clone()
    }
    /// Once per process before any execute.
    fn init_process(&self) {}
    /// Extra evidence keys computed by the parent from aggregated stats.
    fn extra_evidence(&self, _stats: &BTreeMap<String, u64>) -> Json {
        json!({})
    }
}

pub fn run_seed(base: u64, id: &str, index: u64) -> u64 {
    mix(mix(base, fnv(id.as_bytes())), index)
}

// ---------------------------------------------------------------------------------------------
// Panic capture

thread_local! {
    static LAST_PANIC: std::cell::RefCell<Option<String>> = const { std::cell::RefCell::new(None) };
}

pub fn install_panic_hook() {
    std::panic::set_hook(Box::new(|info| {
        let msg = if let Some(s) = info.payload().downcast_ref::<&str>() {
            (*s).to_owned()
        } else if let Some(s) = info.payload().downcast_ref::<String>() {
            s.clone()
        } else {
            "<non-string panic>".to_owned()
        };
        let loc = info
            .location()
            .map(|l| format!("{}:{}", l.file(), l.line()))
            .unwrap_or_default();
        if std::env::var_os("VERIF_DEBUG_PANIC").is_some() {
            eprintln!("PANIC {msg} @ {loc}\n{}", std::backtrace::Backtrace::force_capture());
        }
        let _ = LAST_PANIC.try_with(|p| *p.borrow_mut() = Some(format!("{msg} @ {loc}")));
    }));
}

pub fn take_last_panic() -> Option<String> {
    LAST_PANIC.with(|p| p.borrow_mut().take())
}

/// Execute one case on a fresh thread with a big stack, converting panics into violations.
pub fn execute_guarded(world: &'static dyn World, case: &Json) -> Outcome {
    let case = case.clone();
    let h = std::thread::Builder::new()
        .name("sim-run".to_owned())
        .stack_size(512 << 20)
        .spawn(move || {
            let r = std::panic::catch_unwind(std::panic::AssertUnwindSafe(|| world.execute(&case)));
            match r {
                Ok(o) => o,
                Err(_) => {
                    let msg = take_last_panic().unwrap_or_else(|| "panic".to_owned());
                    let mut o = Outcome::default();
                    o.violate("panic", &panic_key(&msg), panic_key_detail(&msg));
                    o
                }
            }
        })
        .expect("spawn run thread");
    match h.join() {
        Ok(o) => o,
        Err(_) => {
            let mut o = Outcome::default();
            o.violate("panic", "panic", "run thread panicked outside catch_unwind".to_owned());
            o
        }
    }
}

/// Key of a panic: its source location relative to the crate (so that different panic sites are
/// different findings, independent of where the repository is checked out).
fn panic_key(msg: &str) -> String {
    match msg.rsplit_once(" @ ") {
        Some((_, loc)) => {
            let rel = loc.find("/starlark").map(|i| &loc[i + 1..]).unwrap_or(loc);
            format!("panic@{rel}")
        }
        None => "panic".to_owned(),
    }
}

fn panic_key_detail(msg: &str) -> String {
    msg.to_owned()
}

// ---------------------------------------------------------------------------------------------
// Worker side

pub fn worker_main(world: &'static dyn World, tier: Tier, base: u64, indices: Vec<u64>) {
    install_panic_hook();
    world.init_process();
    let stdout = std::io::stdout();
    for i in indices {
        {
            let mut out = stdout.lock();
            let _ = writeln!(out, "RUN {i}");
            let _ = out.flush();
        }
        let case = world.generate(base, i, tier);
        let o = execute_guarded(world, &case);
        let mut out = stdout.lock();
        let _ = writeln!(out, "END {i} {}", o.to_json());
        let _ = out.flush();
    }
    let mut out = stdout.lock();
    let _ = writeln!(out, "DONE");
    let _ = out.flush();
}

pub fn exec_main(world: &'static dyn World, case: &Json) {
    install_panic_hook();
    world.init_process();
    let o = execute_guarded(world, case);
    println!("OUTCOME {}", o.to_json());
}

// ---------------------------------------------------------------------------------------------
// Parent side

#[derive(Debug)]
pub enum ChildResult {
    Outcome(Outcome),
    Crash(String),
    Hang,
}

impl ChildResult {
    pub fn violation(&self) -> Option<Violation> {
        match self {
            ChildResult::Outcome(o) => o.violation.clone().or_else(|| {
                o.known.first().map(|(k, d)| Violation { class: "known-defect-model".to_owned(), key: k.clone(), detail: d.clone() })
            }),
            ChildResult::Crash(sig) => Some(Violation {
                class: "crash".to_owned(),
                key: "crash".to_owned(),
                detail: format!("process died: {sig}"),
            }),
            ChildResult::Hang => Some(Violation {
                class: "hang".to_owned(),
                key: "hang".to_owned(),
                detail: "no progress within the hang timeout".to_owned(),
            }),
        }
    }
}

fn self_exe() -> std::path::PathBuf {
    std::env::current_exe().expect("current_exe")
}

fn describe_status(st: &std::process::ExitStatus) -> String {
    if let Some(sig) = st.signal() {
        format!("signal {sig}")
    } else {
        format!("exit code {:?}", st.code())
    }
}

static TMP_COUNTER: AtomicU64 = AtomicU64::new(0);

/// Root for evidence/, replays/ and scratch files (default /verif; overridden for mutant runs).
pub fn out_root() -> String {
    std::env::var("VERIF_OUT_DIR").unwrap_or_else(|_| "/verif".to_owned())
}

fn scratch_dir() -> std::path::PathBuf {
    let d = std::path::PathBuf::from(format!("{}/target/scratch", out_root()));
    let _ = std::fs::create_dir_all(&d);
    d
}

/// Execute a literal case in a fresh child process.
pub fn exec_case_in_child(id: &str, case: &Json, hang_s: u64) -> ChildResult {
    let n = TMP_COUNTER.fetch_add(1, Ordering::SeqCst);
    let path = scratch_dir().join(format!("case-{}-{}.json", std::process::id(), n));
    std::fs::write(&path, serde_json::to_vec(&json!({"property": id, "case": case})).unwrap())
        .expect("write case");
    let r = exec_file_in_child(&path, hang_s);
    let _ = std::fs::remove_file(&path);
    r
}

pub fn exec_file_in_child(path: &std::path::Path, hang_s: u64) -> ChildResult {
    let mut child = Command::new(self_exe())
        .arg("exec")
        .arg(path)
        .stdin(Stdio::null())
        .stdout(Stdio::piped())
        .stderr(Stdio::null())
        .spawn()
        .expect("spawn exec child");
    let stdout = child.stdout.take().unwrap();
    let done = Arc::new(AtomicBool::new(false));
    let pid = child.id();
    let killed = Arc::new(AtomicBool::new(false));
    {
        let done = done.clone();
        let killed = killed.clone();
        std::thread::spawn(move || {
            let start = Instant::now();
            while !done.load(Ordering::SeqCst) {
                if start.elapsed() > Duration::from_secs(hang_s) {
                    killed.store(true, Ordering::SeqCst);
                    unsafe {
                        libc::kill(pid as i32, libc::SIGKILL);
                    }
                    return;
                }
                std::thread::sleep(Duration::from_millis(20));
            }
        });
    }
    let mut outcome = None;
    for line in BufReader::new(stdout).lines() {
        let Ok(line) = line else { break };
        if let Some(rest) = line.strip_prefix("OUTCOME ") {
            if let Ok(j) = serde_json::from_str::<Json>(rest) {
                outcome = Some(Outcome::from_json(&j));
            }
        }
    }
    let st = child.wait().expect("wait");
    done.store(true, Ordering::SeqCst);
    if killed.load(Ordering::SeqCst) {
        return ChildResult::Hang;
    }
    match outcome {
        Some(o) if st.success() => ChildResult::Outcome(o),
        _ => ChildResult::Crash(describe_status(&st)),
    }
}

struct BlockResult {
    outcomes: Vec<(u64, Outcome)>,
    /// Index in flight when the worker died or hung.
    abnormal: Option<(u64, ChildResult)>,
}

fn run_block(id: &str, tier: Tier, base: u64, indices: &[u64], hang_s: u64) -> BlockResult {
    let list = indices
        .iter()
        .map(|i| i.to_string())
        .collect::<Vec<_>>()
        .join(",");
    let mut child = Command::new(self_exe())
        .arg("work")
        .arg(id)
        .arg(tier.name())
        .arg(base.to_string())
        .arg(list)
        .stdin(Stdio::null())
        .stdout(Stdio::piped())
        .stderr(Stdio::null())
        .spawn()
        .expect("spawn worker");
    let stdout = child.stdout.take().unwrap();
    let last_progress = Arc::new(Mutex::new(Instant::now()));
    let done = Arc::new(AtomicBool::new(false));
    let killed = Arc::new(AtomicBool::new(false));
    let pid = child.id();
    {
        let last_progress = last_progress.clone();
        let done = done.clone();
        let killed = killed.clone();
        std::thread::spawn(move || {
            while !done.load(Ordering::SeqCst) {
                let idle = last_progress.lock().unwrap().elapsed();
                if idle > Duration::from_secs(hang_s) {
                    killed.store(true, Ordering::SeqCst);
                    unsafe {
                        libc::kill(pid as i32, libc::SIGKILL);
                    }
                    return;
                }
                std::thread::sleep(Duration::from_millis(50));
            }
        });
    }
    let mut outcomes = Vec::new();
    let mut in_flight: Option<u64> = None;
    let mut finished = false;
    for line in BufReader::new(stdout).lines() {
        let Ok(line) = line else { break };
        *last_progress.lock().unwrap() = Instant::now();
        if let Some(rest) = line.strip_prefix("RUN ") {
            in_flight = rest.trim().parse().ok();
        } else if let Some(rest) = line.strip_prefix("END ") {
            let mut it = rest.splitn(2, ' ');
            let i: u64 = it.next().unwrap().parse().unwrap();
            let j: Json = serde_json::from_str(it.next().unwrap_or("{}")).unwrap_or(json!({}));
            outcomes.push((i, Outcome::from_json(&j)));
            in_flight = None;
        } else if line == "DONE" {
            finished = true;
        }
    }
    let st = child.wait().expect("wait worker");
    done.store(true, Ordering::SeqCst);
    let abnormal = if finished && st.success() {
        None
    } else if let Some(i) = in_flight {
        if killed.load(Ordering::SeqCst) {
            Some((i, ChildResult::Hang))
        } else {
            Some((i, ChildResult::Crash(describe_status(&st))))
        }
    } else if finished {
        None
    } else {
        // Died between runs: attribute to the next index that has no outcome.
        let seen: BTreeSet<u64> = outcomes.iter().map(|(i, _)| *i).collect();
        indices
            .iter()
            .find(|i| !seen.contains(i))
            .map(|i| (*i, ChildResult::Crash(describe_status(&st))))
    };
    BlockResult { outcomes, abnormal }
}

pub struct Finding {
    pub index: u64,
    pub violation: Violation,
    pub case: Json,
    /// Indices that ran before it in the same worker process (for history-dependent crashes).
    pub prefix: Vec<u64>,
}

#[derive(Default)]
struct Agg {
    evaluations: u64,
    stats: BTreeMap<String, u64>,
    digests: BTreeSet<u64>,
    sim_time: u64,
    log_hashes: BTreeMap<u64, u64>,
    findings: Vec<Finding>,
    harness_errors: Vec<String>,
    watchdog_load_timeouts: u64,
    known_seen: BTreeSet<String>,
    known_repeat: BTreeMap<String, u64>,
}

pub fn known_findings() -> Json {
    std::fs::read("/verif/known_findings.json")
        .ok()
        .and_then(|b| serde_json::from_slice(&b).ok())
        .unwrap_or(json!({"findings": [], "fixed": []}))
}

fn is_known(known: &Json, id: &str, key: &str) -> Option<String> {
    for f in known["findings"].as_array()? {
        if f["property"].as_str() == Some(id) && f["key"].as_str() == Some(key) {
            return Some(f["what_fails"].as_str().unwrap_or("").to_owned());
        }
    }
    None
}

pub fn env_seed() -> u64 {
    std::env::var("VERIF_SEED")
        .ok()
        .and_then(|s| s.trim().parse::<u64>().ok())
        .unwrap_or(DEFAULT_SEED)
}

/// The parent: fan out, aggregate, confirm, minimise, write evidence. Returns the exit code.
pub fn parent_main(world: &'static dyn World, tier: Tier) -> i32 {
    let start = Instant::now();
    let id = world.id();
    let base = env_seed();
    let budget = world.budget(tier);
    let desc = world.describe();
    let workers: usize = std::env::var("VERIF_WORKERS")
        .ok()
        .and_then(|s| s.parse().ok())
        .unwrap_or(16);
    println!(
        "[{id}] tier={} seed={base} runs<={} wall<={}s workers={workers}",
        tier.name(),
        budget.runs,
        budget.wall_s
    );

    let next = Arc::new(AtomicU64::new(0));
    let agg = Arc::new(Mutex::new(Agg::default()));
    let deadline = start + Duration::from_secs(budget.wall_s);
    let stop = Arc::new(AtomicBool::new(false));
    let mut handles = Vec::new();
    for _ in 0..workers {
        let next = next.clone();
        let agg = agg.clone();
        let stop = stop.clone();
        let runs = budget.runs;
        let block = budget.block;
        let hang_s = budget.hang_s;
        handles.push(std::thread::spawn(move || {
            loop {
                if stop.load(Ordering::SeqCst) || Instant::now() > deadline {
                    return;
                }
                let lo = next.fetch_add(block, Ordering::SeqCst);
                if lo >= runs {
                    return;
                }
                let hi = std::cmp::min(lo + block, runs);
                let mut indices: Vec<u64> = (lo..hi).collect();
                // A worker that dies is restarted on the remainder of its block.
                while !indices.is_empty() {
                    let r = run_block(id, tier, base, &indices, hang_s);
                    let mut a = agg.lock().unwrap();
                    let mut done: BTreeSet<u64> = BTreeSet::new();
                    for (i, o) in r.outcomes {
                        done.insert(i);
                        a.evaluations += 1;
                        for (k, v) in &o.stats {
                            *a.stats.entry(k.clone()).or_insert(0) += v;
                        }
                        if o.nontrivial {
                            a.digests.insert(o.digest);
                        }
                        a.sim_time += o.sim_time;
                        a.log_hashes.insert(i, o.log_hash);
                        for (k, d) in &o.known {
                            // Reported through the same path as violations; suppressed only if listed.
                            if a.known_seen.insert(k.clone()) {
                                let case = world.generate(base, i, tier);
                                a.findings.push(Finding {
                                    index: i,
                                    violation: Violation { class: "known-defect-model".to_owned(), key: k.clone(), detail: d.clone() },
                                    case,
                                    prefix: Vec::new(),
                                });
                            } else {
                                *a.known_repeat.entry(k.clone()).or_insert(0) += 1;
                            }
                        }
                        if let Some(v) = o.violation {
                            let case = world.generate(base, i, tier);
                            a.findings.push(Finding {
                                index: i,
                                violation: v,
                                case,
                                prefix: Vec::new(),
                            });
                            if a.findings.len() >= 64 {
                                stop.store(true, Ordering::SeqCst);
                            }
                        }
                    }
                    if let Some((i, res)) = r.abnormal {
                        a.evaluations += 1;
                        let prefix: Vec<u64> =
                            indices.iter().copied().take_while(|x| *x != i).collect();
                        let case = world.generate(base, i, tier);
                        a.findings.push(Finding {
                            index: i,
                            violation: res.violation().unwrap(),
                            case,
                            prefix,
                        });
                        done.insert(i);
                        drop(a);
                        indices.retain(|x| !done.contains(x));
                    } else {
                        break;
                    }
                }
            }
        }));
    }
    for h in handles {
        let _ = h.join();
    }
    let mut agg = Arc::try_unwrap(agg).ok().unwrap().into_inner().unwrap();
    let main_wall = start.elapsed().as_secs_f64();

    // Determinism recheck: re-run the first K indices in one fresh process, in reverse order.
    let mut recheck_done = 0u64;
    let mut recheck_div = 0u64;
    let only_known = agg.findings.iter().all(|f| is_known(&known_findings(), id, &f.violation.key).is_some());
    if only_known {
        let k = std::cmp::min(budget.recheck, agg.evaluations);
        let indices: Vec<u64> = (0..k).rev().filter(|i| agg.log_hashes.contains_key(i)).collect();
        if !indices.is_empty() {
            let r = run_block(id, tier, base, &indices, budget.hang_s);
            for (i, o) in r.outcomes {
                recheck_done += 1;
                if agg.log_hashes.get(&i) != Some(&o.log_hash) {
                    recheck_div += 1;
                    agg.harness_errors.push(format!(
                        "determinism recheck: run {i} produced a different event log when re-run"
                    ));
                }
            }
            if r.abnormal.is_some() {
                agg.harness_errors
                    .push("determinism recheck: worker died on a run that passed before".to_owned());
            }
        }
    }

    // Confirm, classify, minimise and report findings.
    let known = known_findings();
    let mut reported: BTreeSet<String> = BTreeSet::new();
    let mut known_printed: BTreeSet<String> = BTreeSet::new();
    let mut violations = 0u64;
    let mut known_hits: BTreeMap<String, u64> = BTreeMap::new();
    agg.findings.sort_by_key(|f| f.index);
    let min_budget = match tier {
        Tier::Quick => 45,
        Tier::Thorough => 120,
    };
    let findings = std::mem::take(&mut agg.findings);
    for f in findings {
        if let Some(what) = is_known(&known, id, &f.violation.key) {
            *known_hits.entry(f.violation.key.clone()).or_insert(0) += 1 + agg.known_repeat.get(&f.violation.key).copied().unwrap_or(0);
            if known_printed.insert(f.violation.key.clone()) {
                println!("KNOWN-FINDING: property={id} {what}");
            }
            continue;
        }
        let sig = format!("{}|{}", f.violation.class, f.violation.key);
        if reported.contains(&sig) || reported.len() >= 4 {
            violations += 1;
            continue;
        }
        if f.violation.class == "known-defect-model" {
            // A deviation matching a modelled defect that is NOT listed in known_findings.json.
            let confirm = exec_case_in_child(id, &f.case, budget.hang_s);
            let ok = matches!(&confirm, ChildResult::Outcome(o) if o.known.iter().any(|(k, _)| *k == f.violation.key));
            if !ok {
                agg.harness_errors.push(format!("run {} reported modelled defect {} but it did not reproduce", f.index, f.violation.key));
                continue;
            }
            let path = write_replay(id, base, f.index, tier, &f.case, &f.violation, None);
            violations += 1;
            reported.insert(sig);
            println!("VIOLATION property={id} replay={path}");
            println!("  class={} key={} detail={}", f.violation.class, f.violation.key, first_line(&f.violation.detail));
            continue;
        }
        // Confirm in a fresh process. The hang watchdog is the one wall-clock element of the harness:
        // a reported hang is confirmed with a four times longer limit, alone on the machine's
        // remaining capacity, and a hang that does not reproduce is counted as a load-induced
        // time-out of the watchdog (the simulated execution itself is deterministic, so a real
        // dead-lock or endless loop reproduces).
        let is_hang = f.violation.class == "hang";
        let confirm_hang_s = if is_hang { budget.hang_s * 4 } else { budget.hang_s };
        let confirm = exec_case_in_child(id, &f.case, confirm_hang_s);
        if is_hang && confirm.violation().is_none() {
            let mut idx = f.prefix.clone();
            idx.push(f.index);
            let r = run_block(id, tier, base, &idx, confirm_hang_s);
            let again = matches!(&r.abnormal, Some((i, res)) if *i == f.index && res.violation().map(|v| v.class == "hang").unwrap_or(false));
            if !again {
                agg.watchdog_load_timeouts += 1;
                continue;
            }
        }
        let confirmed = match confirm.violation() {
            Some(v) => v.class == f.violation.class,
            None => false,
        };
        if !confirmed {
            // History-dependent? Re-run the prefix of the same worker followed by this index.
            let mut idx = f.prefix.clone();
            idx.push(f.index);
            let r = run_block(id, tier, base, &idx, budget.hang_s);
            let again = match &r.abnormal {
                Some((i, res)) if *i == f.index => {
                    res.violation().map(|v| v.class) == Some(f.violation.class.clone())
                }
                _ => r.outcomes.iter().any(|(i, o)| {
                    *i == f.index
                        && o.violation.as_ref().map(|v| &v.class) == Some(&f.violation.class)
                }),
            };
            if !again && is_hang {
                // Reproduced once with the longer limit and not again: the watchdog's wall clock
                // under machine load, not the (deterministic) simulated execution.
                agg.watchdog_load_timeouts += 1;
                continue;
            }
            if !again {
                agg.harness_errors.push(format!(
                    "run {} reported {} ({}) but it did not reproduce in a fresh process",
                    f.index, f.violation.class, f.violation.detail
                ));
                continue;
            }
            // Reproduces only with history: replay file records the index sequence.
            let path = write_replay(
                id,
                base,
                f.index,
                tier,
                &f.case,
                &f.violation,
                Some(&idx),
            );
            violations += 1;
            reported.insert(sig);
            println!("VIOLATION property={id} replay={path}");
            println!("  class={} key={} detail={}", f.violation.class, f.violation.key, first_line(&f.violation.detail));
            continue;
        }
        // Make the case literal (recorded schedule etc.) if that still reproduces.
        let mut start_case = f.case.clone();
        if let ChildResult::Outcome(co) = &confirm {
            if let Some(art) = &co.artifact {
                let lit = world.apply_artifact(&f.case, art);
                let r = exec_case_in_child(id, &lit, budget.hang_s);
                if r.violation().map(|v| v.class == f.violation.class).unwrap_or(false) {
                    start_case = lit;
                }
            }
        }
        let (case, viol) = minimise(world, id, start_case, confirm.violation().unwrap(), min_budget, budget.hang_s);
        let path = write_replay(id, base, f.index, tier, &case, &viol, None);
        violations += 1;
        reported.insert(sig);
        println!("VIOLATION property={id} replay={path}");
        println!("  class={} key={} detail={}", viol.class, viol.key, first_line(&viol.detail));
    }

    // Evidence.
    let wall = start.elapsed().as_secs_f64();
    let mut samples = Vec::new();
    for i in 0..3u64 {
        if i < budget.runs {
            samples.push(world.generate(base, i, tier));
        }
    }
    let runs_per_hour = if main_wall > 0.0 {
        (agg.evaluations as f64 / main_wall * 3600.0) as u64
    } else {
        0
    };
    let mut faults = BTreeMap::new();
    let mut probes = BTreeMap::new();
    let mut other = BTreeMap::new();
    for (k, v) in &agg.stats {
        if let Some(r) = k.strip_prefix("fault.") {
            faults.insert(r.to_owned(), *v);
        } else if let Some(r) = k.strip_prefix("probe.") {
            probes.insert(r.to_owned(), *v);
        } else {
            other.insert(k.clone(), *v);
        }
    }
    let mut coverage = json!({
        "evaluations": agg.evaluations,
        "distinct_nontrivial": agg.digests.len(),
        "rule": desc.rule,
        "samples": samples,
        "exhaustive": desc.exhaustive,
        "runs_per_hour": runs_per_hour,
        "simulated_time": {"unit": desc.sim_time_unit, "total": agg.sim_time},
        "faults_injected": faults,
        "probes": probes,
        "counters": other,
        "determinism_recheck": {"seeds_rerun": recheck_done, "divergences": recheck_div},
        "real_components": desc.real_components,
        "stub_components": desc.stub_components,
        "known_finding_hits": known_hits,
        "harness_errors": agg.harness_errors,
        "watchdog_load_timeouts_not_reproduced": agg.watchdog_load_timeouts,
        "workers": workers,
    });
    let extra = world.extra_evidence(&agg.stats);
    if let Some(m) = extra.as_object() {
        for (k, v) in m {
            coverage[k] = v.clone();
        }
    }
    let evidence = json!({
        "property_id": id,
        "tier": tier.name(),
        "seed": base,
        "level": desc.level,
        "coverage": coverage,
        "assumptions": desc.assumptions,
        "wall_s": wall,
        "violations": violations,
    });
    let _ = std::fs::create_dir_all(format!("{}/evidence", out_root()));
    let ev_path = format!("{}/evidence/{id}.json", out_root());
    std::fs::write(&ev_path, serde_json::to_string_pretty(&evidence).unwrap() + "\n")
        .expect("write evidence");
    // The latest thorough run is kept next to it (the main file is rewritten by every run).
    if tier == Tier::Thorough {
        let _ = std::fs::create_dir_all(format!("{}/evidence/thorough", out_root()));
        let _ = std::fs::write(format!("{}/evidence/thorough/{id}.json", out_root()), serde_json::to_string_pretty(&evidence).unwrap() + "\n");
    }
    println!(
        "[{id}] evaluations={} distinct_nontrivial={} violations={} known={} wall={:.1}s evidence={ev_path}",
        agg.evaluations,
        agg.digests.len(),
        violations,
        known_hits.values().sum::<u64>(),
        wall
    );
    if violations > 0 {
        return 1;
    }
    if !agg.harness_errors.is_empty() {
        for e in &agg.harness_errors {
            eprintln!("HARNESS-ERROR {e}");
        }
        return 2;
    }
    if agg.evaluations == 0 {
        eprintln!("HARNESS-ERROR no runs executed");
        return 2;
    }
    0
}

fn first_line(s: &str) -> String {
    let l = s.lines().next().unwrap_or("");
    if l.len() > 300 {
        let mut e = 300;
        while !l.is_char_boundary(e) {
            e -= 1;
        }
        format!("{}...", &l[..e])
    } else {
        l.to_owned()
    }
}

fn write_replay(
    id: &str,
    base: u64,
    index: u64,
    tier: Tier,
    case: &Json,
    v: &Violation,
    history: Option<&[u64]>,
) -> String {
    let dir = format!("{}/replays/{id}", out_root());
    let _ = std::fs::create_dir_all(&dir);
    let body = json!({
        "property": id,
        "harness_version": HARNESS_VERSION,
        "seed": base,
        "index": index,
        "tier": tier.name(),
        "history": history,
        "case": case,
        "expected": {"class": v.class, "key": v.key, "detail": v.detail},
    });
    let text = serde_json::to_string_pretty(&body).unwrap();
    let path = format!("{dir}/{base}-{index}-{:08x}.json", fnv(text.as_bytes()) as u32);
    std::fs::write(&path, text + "\n").expect("write replay");
    path
}

/// Greedy minimisation: keep a candidate iff the same violation class (and key) persists.
fn minimise(
    world: &'static dyn World,
    id: &str,
    mut case: Json,
    mut viol: Violation,
    budget_s: u64,
    hang_s: u64,
) -> (Json, Violation) {
    let start = Instant::now();
    let mut progress = true;
    // Candidates are tried in the order the world proposes them, `par` at a time in fresh child
    // processes; the first one (in that order) that still shows the same violation is kept, so the
    // result does not depend on which child finishes first.
    let par = std::thread::available_parallelism().map(|n| n.get()).unwrap_or(4).clamp(1, 12);
    while progress && start.elapsed() < Duration::from_secs(budget_s) {
        progress = false;
        let cands = world.shrink(&case);
        for chunk in cands.chunks(par) {
            if start.elapsed() >= Duration::from_secs(budget_s) {
                break;
            }
            let results: Vec<Option<Violation>> = std::thread::scope(|sc| {
                let hs: Vec<_> = chunk.iter().map(|cand| sc.spawn(move || exec_case_in_child(id, cand, hang_s).violation())).collect();
                hs.into_iter().map(|h| h.join().unwrap_or(None)).collect()
            });
            let hit = results.into_iter().enumerate().find_map(|(i, v)| match v {
                Some(v) if v.class == viol.class && v.key == viol.key => Some((i, v)),
                _ => None,
            });
            if let Some((i, v)) = hit {
                case = chunk[i].clone();
                viol = v;
                progress = true;
                break;
            }
        }
    }
    (case, viol)
}

/// `replay <path>`: re-execute a replay file in a fresh process.
pub fn replay_main(worlds: &[&'static dyn World], path: &str) -> i32 {
    let body: Json = match std::fs::read(path).ok().and_then(|b| serde_json::from_slice(&b).ok()) {
        Some(j) => j,
        None => {
            eprintln!("HARNESS-ERROR cannot read replay file {path}");
            return 2;
        }
    };
    let id = body["property"].as_str().unwrap_or("").to_owned();
    let Some(world) = worlds.iter().find(|w| w.id() == id) else {
        eprintln!("HARNESS-ERROR unknown property {id}");
        return 2;
    };
    let hang_s = world.budget(Tier::Quick).hang_s;
    let expected_class = body["expected"]["class"].as_str().unwrap_or("").to_owned();
    let got = if let Some(hist) = body["history"].as_array() {
        let idx: Vec<u64> = hist.iter().filter_map(|x| x.as_u64()).collect();
        let base = body["seed"].as_u64().unwrap_or(DEFAULT_SEED);
        let tier = Tier::parse(body["tier"].as_str().unwrap_or("quick")).unwrap_or(Tier::Quick);
        let r = run_block(&id, tier, base, &idx, hang_s);
        let last = *idx.last().unwrap_or(&0);
        match r.abnormal {
            Some((i, res)) if i == last => res.violation(),
            _ => r
                .outcomes
                .into_iter()
                .find(|(i, _)| *i == last)
                .and_then(|(_, o)| o.violation),
        }
    } else {
        exec_case_in_child(&id, &body["case"], hang_s).violation()
    };
    match got {
        Some(v) if v.class == "known-defect-model" && is_known(&known_findings(), &id, &v.key).is_some() => {
            // Only a recorded (not repaired) defect shows in this case.
            println!("KNOWN-FINDING: property={id} {}", is_known(&known_findings(), &id, &v.key).unwrap_or_default());
            println!("[{id}] replay {path}: no other violation (expected class {expected_class})");
            0
        }
        Some(v) => {
            println!("VIOLATION property={id} replay={path}");
            println!("  class={} key={} detail={}", v.class, v.key, v.detail);
            if v.class != expected_class {
                println!("  note: expected class {expected_class}");
            }
            1
        }
        None => {
            println!("[{id}] replay {path}: no violation (expected class {expected_class})");
            0
        }
    }
}
