//! verif-sim: deterministic simulation with fault injection for starlark-rust.

mod atomrt;
mod core;
mod genprog;
mod kit;
mod rng;
mod sched;
mod worlds;

use crate::core::Tier;
use crate::core::World;

static WORLDS: &[&'static dyn World] = &[&worlds::c03::C03, &worlds::c04::C04, &worlds::c07::C07, &worlds::c11::C11, &worlds::c12::C12, &worlds::c13::C13, &worlds::c14::C14, &worlds::c15::C15, &worlds::c18::C18, &worlds::c19::C19, &worlds::c20::C20];

fn find(id: &str) -> &'static dyn World {
    match WORLDS.iter().find(|w| w.id() == id) {
        Some(w) => *w,
        None => {
            eprintln!("HARNESS-ERROR unknown property {id}");
            std::process::exit(2);
        }
    }
}

fn main() {
    let args: Vec<String> = std::env::args().collect();
    if args.len() < 2 {
        eprintln!("usage: verif-sim run <ID> <tier> | work ... | exec <file> | replay <file> | show <ID> <index>");
        std::process::exit(2);
    }
    match args[1].as_str() {
        "run" => {
            let w = find(&args[2]);
            let tier = std::env::var("VERIF_TIER")
                .ok()
                .and_then(|t| Tier::parse(&t))
                .or_else(|| args.get(3).and_then(|t| Tier::parse(t)))
                .unwrap_or(Tier::Quick);
            // An explicit tier argument wins over the environment.
            let tier = args.get(3).and_then(|t| Tier::parse(t)).unwrap_or(tier);
            std::process::exit(core::parent_main(w, tier));
        }
        "work" => {
            let w = find(&args[2]);
            let tier = Tier::parse(&args[3]).unwrap();
            let base: u64 = args[4].parse().unwrap();
            let indices: Vec<u64> = args[5].split(',').filter_map(|s| s.parse().ok()).collect();
            core::worker_main(w, tier, base, indices);
        }
        "exec" => {
            let body: serde_json::Value =
                serde_json::from_slice(&std::fs::read(&args[2]).expect("read case")).expect("parse case");
            let w = find(body["property"].as_str().unwrap_or(""));
            core::exec_main(w, &body["case"]);
        }
        "replay" => {
            std::process::exit(core::replay_main(WORLDS, &args[2]));
        }
        "c14child" => {
            core::install_panic_hook();
            worlds::c14::child_main(&args[2], args[3].parse().unwrap());
        }
        "show" => {
            let w = find(&args[2]);
            let idx: u64 = args[3].parse().unwrap();
            let tier = args.get(4).and_then(|t| Tier::parse(t)).unwrap_or(Tier::Quick);
            let case = w.generate(core::env_seed(), idx, tier);
            println!("{}", serde_json::to_string_pretty(&case).unwrap());
        }
        "one" => {
            // Run a single generated case in-process and print the outcome (debugging aid).
            let w = find(&args[2]);
            let idx: u64 = args[3].parse().unwrap();
            let tier = args.get(4).and_then(|t| Tier::parse(t)).unwrap_or(Tier::Quick);
            let case = w.generate(core::env_seed(), idx, tier);
            core::exec_main(w, &case);
        }
        other => {
            eprintln!("HARNESS-ERROR unknown command {other}");
            std::process::exit(2);
        }
    }
}
