//! Evaluation kit shared by all evaluator-side worlds: the per-run context, the native
//! module the harness registers (`emit`, `fault`, `cancel`, ...), the canonical observer
//! and small helpers around `Module` / `Evaluator`.

use std::cell::Cell;
use std::cell::RefCell;
use std::collections::BTreeMap;
use std::rc::Rc;
use std::sync::OnceLock;

use starlark::environment::FrozenModule;
use starlark::environment::Globals;
use starlark::environment::GlobalsBuilder;
use starlark::environment::LibraryExtension;
use starlark::eval::Evaluator;
use starlark::eval::FileLoader;
use starlark::starlark_module;
use starlark::syntax::AstModule;
use starlark::syntax::Dialect;
use starlark::values::Value;
use starlark::values::none::NoneType;
use starlark::values::tuple::UnpackTuple;

use crate::rng::fnv;

/// Per-run, per-thread context read and written by the native functions.
#[derive(Default)]
pub struct Ctx {
    /// Observable transcript of the run.
    pub transcript: Vec<String>,
    /// Number of `fault()` invocations so far.
    pub fault_calls: u64,
    /// 1-based ordinal of the `fault()` invocation that fails (0 = none).
    pub fail_at: u64,
    /// Did the injected fault fire?
    pub fault_fired: bool,
    /// Site of the fired fault.
    pub fault_site: String,
    /// Cancellation flag (read by the evaluator's `check_cancelled` callback).
    pub cancel: Rc<Cell<bool>>,
    /// Tick count at the moment `cancel()` was called.
    pub cancel_tick: Option<u64>,
    /// Free-form counters (probes).
    pub counters: BTreeMap<String, u64>,
    /// Values stashed by `stash(k, v)` are not kept (only their encodings).
    pub stash: BTreeMap<String, String>,
    /// Invariants stated by the program itself (`expect_eq`) that did not hold.
    pub problems: Vec<String>,
}

thread_local! {
    pub static CTX: RefCell<Ctx> = RefCell::new(Ctx::default());
}

pub fn ctx_reset() {
    CTX.with(|c| *c.borrow_mut() = Ctx::default());
}

pub fn ctx<R>(f: impl FnOnce(&mut Ctx) -> R) -> R {
    CTX.with(|c| f(&mut c.borrow_mut()))
}

pub fn take_transcript() -> Vec<String> {
    ctx(|c| std::mem::take(&mut c.transcript))
}

pub fn probe(name: &str) {
    ctx(|c| *c.counters.entry(name.to_owned()).or_insert(0) += 1);
}

/// Canonical, identity-independent encoding of a value: type, repr, str, len, hash.
pub fn encode(v: Value) -> String {
    let ty = v.get_type();
    let repr = v.to_repr();
    let s = v.to_str();
    let len = match v.length() {
        Ok(n) => n.to_string(),
        Err(_) => "-".to_owned(),
    };
    let hash = match v.get_hashed() {
        Ok(h) => format!("{:08x}", h.hash().get()),
        Err(_) => "-".to_owned(),
    };
    if s == repr {
        format!("{ty}:{repr}|=|{len}|{hash}")
    } else {
        format!("{ty}:{repr}|{s}|{len}|{hash}")
    }
}

#[starlark_module]
fn harness_natives(builder: &mut GlobalsBuilder) {
    /// Append the canonical encoding of the arguments to the transcript.
    fn emit<'v>(#[starlark(args)] args: UnpackTuple<Value<'v>>) -> anyhow::Result<NoneType> {
        let line = args
            .items
            .iter()
            .map(|v| encode(*v))
            .collect::<Vec<_>>()
            .join(" ; ");
        ctx(|c| c.transcript.push(line));
        Ok(NoneType)
    }

    /// Consult the fault plan: fail at the configured invocation.
    fn fault<'v>(#[starlark(default = NoneType)] site: Value<'v>) -> anyhow::Result<NoneType> {
        let fire = ctx(|c| {
            c.fault_calls += 1;
            if c.fail_at != 0 && c.fault_calls == c.fail_at {
                c.fault_fired = true;
                c.fault_site = site.to_str();
                true
            } else {
                false
            }
        });
        if fire {
            Err(anyhow::anyhow!("injected fault at site {}", site.to_str()))
        } else {
            Ok(NoneType)
        }
    }

    /// Request cancellation of the running evaluation.
    fn cancel<'v>(eval: &mut Evaluator<'v, '_, '_>) -> anyhow::Result<NoneType> {
        let t = eval.get_total_tick_count();
        ctx(|c| {
            c.cancel.set(true);
            if c.cancel_tick.is_none() {
                c.cancel_tick = Some(t);
            }
        });
        Ok(NoneType)
    }

    /// Current tick count.
    fn tick_now<'v>(eval: &mut Evaluator<'v, '_, '_>) -> anyhow::Result<i64> {
        Ok(eval.get_total_tick_count() as i64)
    }

    /// Marker statement: id plus reprs of the given locals.
    fn mark<'v>(#[starlark(args)] args: UnpackTuple<Value<'v>>) -> anyhow::Result<NoneType> {
        let line = format!(
            "mark {}",
            args.items
                .iter()
                .map(|v| v.to_repr())
                .collect::<Vec<_>>()
                .join(",")
        );
        ctx(|c| c.transcript.push(line));
        Ok(NoneType)
    }

    /// Intern a string on the evaluation heap.
    fn intern<'v>(s: &str, eval: &mut Evaluator<'v, '_, '_>) -> anyhow::Result<Value<'v>> {
        Ok(eval.heap().alloc_str_intern(s).to_value())
    }

    /// Opaque identity (defeats constant folding and inlining).
    fn ident<'v>(x: Value<'v>) -> anyhow::Result<Value<'v>> {
        Ok(x)
    }

    /// Opaque no-op.
    fn noop<'v>(#[starlark(args)] args: UnpackTuple<Value<'v>>) -> anyhow::Result<NoneType> {
        let _ = args;
        Ok(NoneType)
    }

    /// Native callback: call `f(*args)` from Rust.
    fn apply<'v>(
        f: Value<'v>,
        #[starlark(args)] args: UnpackTuple<Value<'v>>,
        eval: &mut Evaluator<'v, '_, '_>,
    ) -> starlark::Result<Value<'v>> {
        eval.eval_function(f, &args.items, &[])
    }

    /// Host-side iteration: iterate `c` from Rust and call `f(x)` for every element (the container is
    /// locked by the Rust iterator; an error drops the iterator).
    fn iter_call<'v>(c: Value<'v>, f: Value<'v>, eval: &mut Evaluator<'v, '_, '_>) -> starlark::Result<Value<'v>> {
        let mut out = Vec::new();
        for x in c.iterate(eval.heap())? {
            out.push(eval.eval_function(f, &[x], &[])?);
        }
        Ok(eval.heap().alloc(out))
    }

    /// Host-side partial iteration: take the first `n` elements and drop the iterator early.
    fn iter_take<'v>(c: Value<'v>, n: i32, eval: &mut Evaluator<'v, '_, '_>) -> starlark::Result<Value<'v>> {
        let mut it = c.iterate(eval.heap())?;
        let mut out = Vec::new();
        for _ in 0..n {
            match it.next() {
                Some(x) => out.push(x),
                None => break,
            }
        }
        drop(it);
        Ok(eval.heap().alloc(out))
    }

    /// Allocate a fresh host-side list of the arguments (host allocation path).
    fn host_list<'v>(
        #[starlark(args)] args: UnpackTuple<Value<'v>>,
        eval: &mut Evaluator<'v, '_, '_>,
    ) -> anyhow::Result<Value<'v>> {
        Ok(eval.heap().alloc(args.items))
    }

    /// Read the module's extra value.
    fn get_extra<'v>(eval: &mut Evaluator<'v, '_, '_>) -> anyhow::Result<Value<'v>> {
        Ok(eval.module().extra_value().unwrap_or(Value::new_none()))
    }

    /// Set the module's extra value.
    fn set_extra<'v>(v: Value<'v>, eval: &mut Evaluator<'v, '_, '_>) -> anyhow::Result<NoneType> {
        eval.module().set_extra_value(v);
        Ok(NoneType)
    }

    /// An invariant stated by the program: both values must have the same canonical encoding.
    fn expect_eq<'v>(a: Value<'v>, b: Value<'v>, #[starlark(default = "")] label: &str) -> anyhow::Result<NoneType> {
        let (ea, eb) = (encode(a), encode(b));
        let ok = ea == eb;
        ctx(|c| {
            c.transcript.push(format!("expect_eq {label} {}", if ok { "ok" } else { "MISMATCH" }));
            if !ok {
                c.problems.push(format!("{label}: `{}` != `{}`", clip(&ea), clip(&eb)));
            }
        });
        Ok(NoneType)
    }

    /// Count a probe.
    fn probe_hit(name: &str) -> anyhow::Result<NoneType> {
        probe(name);
        Ok(NoneType)
    }
}

pub fn dialect() -> Dialect {
    Dialect {
        enable_f_strings: true,
        ..Dialect::Extended
    }
}

static GLOBALS: OnceLock<Globals> = OnceLock::new();

/// Globals: the full extended library plus the harness natives.
pub fn globals() -> &'static Globals {
    GLOBALS.get_or_init(|| {
        // Nobody can observe an intermediate state of a Once initialiser: run it without
        // pre-emption under the cooperative scheduler (a pre-empted initialiser would make other
        // simulated threads block natively on the OnceLock).
        let _no_preempt = starlark::verif_hooks::NoPreempt::enter();
        GlobalsBuilder::extended_by(&[
            LibraryExtension::StructType,
            LibraryExtension::RecordType,
            LibraryExtension::EnumType,
            LibraryExtension::NamespaceType,
            LibraryExtension::Map,
            LibraryExtension::Filter,
            LibraryExtension::Partial,
            LibraryExtension::Print,
            LibraryExtension::Pprint,
            LibraryExtension::Pstr,
            LibraryExtension::Prepr,
            LibraryExtension::Json,
            LibraryExtension::Typing,
            LibraryExtension::CallStack,
            LibraryExtension::SetType,
        ])
        .with(harness_natives)
        .build()
    })
}

pub fn parse(name: &str, text: &str) -> starlark::Result<AstModule> {
    AstModule::parse(name, text.to_owned(), &dialect())
}

/// Render an error as it is observable: full text (message, span, call stack).
pub fn error_text(e: &starlark::Error) -> String {
    format!("{e}")
}

/// Short, location-free error class.
pub fn error_kind(e: &starlark::Error) -> &'static str {
    use starlark::ErrorKind::*;
    match e.kind() {
        Fail(_) => "Fail",
        StackOverflow(_) => "StackOverflow",
        Value(_) => "Value",
        Function(_) => "Function",
        Scope(_) => "Scope",
        Parser(_) => "Parser",
        Freeze(_) => "Freeze",
        Internal(_) => "Internal",
        Native(_) => "Native",
        Other(_) => "Other",
        _ => "Unknown",
    }
}

/// A loader over an ordered map of frozen modules.
pub struct MapLoader {
    pub modules: BTreeMap<String, FrozenModule>,
}

impl FileLoader for MapLoader {
    fn load(&self, path: &str) -> starlark::Result<FrozenModule> {
        match self.modules.get(path) {
            Some(m) => Ok(m.clone()),
            None => Err(starlark::Error::new_other(anyhow::anyhow!(
                "simulated loader: no module `{path}`"
            ))),
        }
    }
}

/// Print handler that appends to the transcript.
pub struct TranscriptPrinter;

impl starlark::PrintHandler for TranscriptPrinter {
    fn println(&self, text: &str) -> starlark::Result<()> {
        ctx(|c| c.transcript.push(format!("print {text}")));
        Ok(())
    }
}

pub fn hash_lines(lines: &[String]) -> u64 {
    let mut h = 0xcbf2_9ce4_8422_2325u64;
    for l in lines {
        h = crate::rng::mix(h, fnv(l.as_bytes()));
    }
    h
}

/// First index at which two transcripts differ, rendered for a violation detail.
pub fn diff_transcripts(a: &[String], b: &[String]) -> Option<String> {
    let n = std::cmp::min(a.len(), b.len());
    for i in 0..n {
        if a[i] != b[i] {
            return Some(format!("line {i}: expected `{}` got `{}`", clip(&a[i]), clip(&b[i])));
        }
    }
    if a.len() != b.len() {
        return Some(format!(
            "length {} vs {}; first extra line `{}`",
            a.len(),
            b.len(),
            clip(if a.len() > n { &a[n] } else { &b[n] })
        ));
    }
    None
}

pub fn clip(s: &str) -> String {
    if s.len() > 400 {
        let mut e = 400;
        while !s.is_char_boundary(e) {
            e -= 1;
        }
        format!("{}…", &s[..e])
    } else {
        s.to_owned()
    }
}
