//! Grammar-directed Starlark program generator.
//!
//! A program is a list of top-level statements (strings, possibly multi-line). Each statement
//! only uses names bound by earlier statements, so every prefix of a program is a valid module.
//! Programs terminate by construction (bounded ranges, bounded recursion) and are bounded in
//! size (no self-doubling operations).

use crate::rng::Rng;

#[derive(Copy, Clone, Debug, PartialEq, Eq)]
pub enum Kind {
    Int,
    Str,
    List,
    Dict,
    Set,
    Tuple,
    Struct,
    /// Callable with one positional argument.
    Func1,
    /// Callable with one positional argument, without side effects (same result before and after freeze).
    PureFunc1,
    /// Callable with no arguments.
    Func0,
    RecordType,
    EnumType,
    Other,
}

impl Kind {
    pub fn name(self) -> &'static str {
        match self {
            Kind::Int => "int",
            Kind::Str => "str",
            Kind::List => "list",
            Kind::Dict => "dict",
            Kind::Set => "set",
            Kind::Tuple => "tuple",
            Kind::Struct => "struct",
            Kind::Func1 => "func1",
            Kind::PureFunc1 => "purefunc1",
            Kind::Func0 => "func0",
            Kind::RecordType => "record_type",
            Kind::EnumType => "enum_type",
            Kind::Other => "other",
        }
    }
    pub fn parse(s: &str) -> Kind {
        match s {
            "int" => Kind::Int,
            "str" => Kind::Str,
            "list" => Kind::List,
            "dict" => Kind::Dict,
            "set" => Kind::Set,
            "tuple" => Kind::Tuple,
            "struct" => Kind::Struct,
            "func1" => Kind::Func1,
            "purefunc1" => Kind::PureFunc1,
            "func0" => Kind::Func0,
            "record_type" => Kind::RecordType,
            "enum_type" => Kind::EnumType,
            _ => Kind::Other,
        }
    }
}

/// Feature switches drawn per run ("swarm" configuration).
#[derive(Clone, Debug)]
pub struct Features {
    pub bigint: bool,
    pub cycles: bool,
    pub closures: bool,
    pub records: bool,
    pub sets: bool,
    pub structs: bool,
    pub toplevel_loops: bool,
    pub comprehensions: bool,
    pub host: bool,
    pub mutation: bool,
    pub natives: bool,
    pub strings: bool,
    pub types: bool,
    pub emit_rate: u64,
}

impl Features {
    pub fn draw(rng: &mut Rng) -> Features {
        let mut on = |p: u64| rng.chance(p, 100);
        Features {
            bigint: on(60),
            cycles: on(55),
            closures: on(75),
            records: on(55),
            sets: on(60),
            structs: on(65),
            toplevel_loops: on(70),
            comprehensions: on(70),
            host: on(60),
            mutation: on(85),
            natives: on(65),
            strings: on(80),
            types: on(60),
            emit_rate: 20 + rng.below(60),
        }
    }
    pub fn all() -> Features {
        Features {
            bigint: true,
            cycles: true,
            closures: true,
            records: true,
            sets: true,
            structs: true,
            toplevel_loops: true,
            comprehensions: true,
            host: true,
            mutation: true,
            natives: true,
            strings: true,
            types: true,
            emit_rate: 50,
        }
    }
}

pub struct Gen<'r> {
    pub rng: &'r mut Rng,
    pub feat: Features,
    pub vars: Vec<(String, Kind)>,
    pub stmts: Vec<String>,
    counter: usize,
    prefix: String,
    /// Allow statements that only make sense in an unfrozen, GC-able module (host natives).
    pub allow_host: bool,
    /// Emit observations (disable for modules that are only exporters).
    pub allow_emit: bool,
    /// Names bound by load(): frozen values, never the target of a mutating statement.
    pub frozen: Vec<String>,
}

const STRS: &[&str] = &[
    "\"\"",
    "\"a\"",
    "\"hello\"",
    "\"h\\u00e9llo\"",
    "\"\\u65e5\\u672c\"",
    "\"x y z\"",
    "\"key\"",
    "\"%s\"",
    "\"a,b,c\"",
    "\"The quick brown fox jumps over the lazy dog\"",
];

impl<'r> Gen<'r> {
    pub fn new(rng: &'r mut Rng, feat: Features, prefix: &str) -> Gen<'r> {
        Gen {
            rng,
            feat,
            vars: Vec::new(),
            stmts: Vec::new(),
            counter: 0,
            prefix: prefix.to_owned(),
            allow_host: true,
            allow_emit: true,
            frozen: Vec::new(),
        }
    }

    fn fresh(&mut self, stem: &str) -> String {
        self.counter += 1;
        format!("{}{}{}", self.prefix, stem, self.counter)
    }

    fn bind(&mut self, name: &str, k: Kind) {
        self.vars.push((name.to_owned(), k));
    }

    fn of_kind(&mut self, k: Kind) -> Option<String> {
        let c: Vec<&(String, Kind)> = self.vars.iter().filter(|(_, kk)| *kk == k || (k == Kind::Func1 && *kk == Kind::PureFunc1)).collect();
        if c.is_empty() {
            None
        } else {
            Some(c[self.rng.usize(c.len())].0.clone())
        }
    }

    /// A variable of that kind that may be mutated (not a loaded, frozen value).
    fn of_kind_mut(&mut self, k: Kind) -> Option<String> {
        let c: Vec<&(String, Kind)> = self.vars.iter().filter(|(n, kk)| *kk == k && !self.frozen.contains(n)).collect();
        if c.is_empty() {
            None
        } else {
            Some(c[self.rng.usize(c.len())].0.clone())
        }
    }

    fn any_var(&mut self) -> Option<String> {
        if self.vars.is_empty() {
            None
        } else {
            let i = self.rng.usize(self.vars.len());
            Some(self.vars[i].0.clone())
        }
    }

    fn int_lit(&mut self) -> String {
        match self.rng.below(10) {
            0 if self.feat.bigint => format!("({} << {})", self.rng.range(1, 9), self.rng.range(31, 90)),
            1 if self.feat.bigint => format!("-({} << {}) + {}", self.rng.range(1, 9), self.rng.range(31, 70), self.rng.range(0, 99)),
            2 => "2147483647".to_owned(),
            3 => "-2147483648".to_owned(),
            _ => self.rng.range(-5, 100).to_string(),
        }
    }

    fn int_expr(&mut self) -> String {
        match self.rng.below(7) {
            0 | 1 => {
                if let Some(v) = self.of_kind(Kind::Int) {
                    let l = self.int_lit();
                    let op = *self.rng.pick(&["+", "-", "*", "//", "%", "|", "^"]);
                    if op == "//" || op == "%" {
                        return format!("{v} {op} {}", self.rng.range(1, 9));
                    }
                    return format!("{v} {op} {l}");
                }
                self.int_lit()
            }
            2 => {
                if let Some(v) = self.of_kind(Kind::List) {
                    return format!("len({v})");
                }
                self.int_lit()
            }
            3 => {
                if let Some(v) = self.of_kind(Kind::Str) {
                    return format!("len({v}) + hash({v}) % 7");
                }
                self.int_lit()
            }
            _ => self.int_lit(),
        }
    }

    fn str_lit(&mut self) -> String {
        (*self.rng.pick(STRS)).to_owned()
    }

    fn str_expr(&mut self) -> String {
        match self.rng.below(9) {
            0 => {
                if let Some(v) = self.of_kind(Kind::Str) {
                    return format!("{v} + {}", self.str_lit());
                }
                self.str_lit()
            }
            1 => {
                if let Some(v) = self.of_kind(Kind::Int) {
                    return format!("\"%s/%d\" % ({}, {v})", self.str_lit());
                }
                self.str_lit()
            }
            2 => {
                if let Some(v) = self.of_kind(Kind::Str) {
                    let m = *self.rng.pick(&["upper()", "lower()", "strip()", "title()", "replace(\"a\", \"bb\")"]);
                    return format!("{v}.{m}");
                }
                self.str_lit()
            }
            3 => {
                if let Some(v) = self.of_kind(Kind::Int) {
                    return format!("\"{{}}-{{}}\".format({v}, {})", self.str_lit());
                }
                self.str_lit()
            }
            4 => {
                if let Some(v) = self.of_kind(Kind::Int) {
                    return format!("str({v})");
                }
                self.str_lit()
            }
            5 => {
                if let Some(v) = self.of_kind(Kind::Str) {
                    return format!("\"-\".join({v}.split(\",\"))");
                }
                self.str_lit()
            }
            _ => self.str_lit(),
        }
    }

    fn scalar(&mut self) -> String {
        match self.rng.below(8) {
            0 => "None".to_owned(),
            1 => "True".to_owned(),
            2 => "1.5".to_owned(),
            3 | 4 => self.str_lit(),
            _ => self.int_lit(),
        }
    }

    /// An element for a container: an existing variable (aliasing) or a scalar.
    fn elem(&mut self, allow_container_ref: &mut bool) -> String {
        if self.rng.chance(45, 100) {
            if let Some(v) = self.any_var() {
                let k = self.vars.iter().find(|(n, _)| *n == v).unwrap().1;
                let is_container = matches!(k, Kind::List | Kind::Dict | Kind::Set | Kind::Tuple | Kind::Struct);
                if !is_container {
                    return v;
                }
                if *allow_container_ref {
                    *allow_container_ref = false;
                    return v;
                }
            }
        }
        self.scalar()
    }

    fn key(&mut self) -> String {
        match self.rng.below(6) {
            0 => {
                if let Some(v) = self.of_kind(Kind::Int) {
                    return v;
                }
                self.int_lit()
            }
            1 => {
                if let Some(v) = self.of_kind(Kind::Str) {
                    return v;
                }
                self.str_lit()
            }
            2 => format!("({}, {})", self.rng.range(0, 5), self.str_lit()),
            3 => self.int_lit(),
            _ => self.str_lit(),
        }
    }

    fn list_lit(&mut self) -> String {
        let n = self.rng.below(6);
        let mut allow = true;
        let xs: Vec<String> = (0..n).map(|_| self.elem(&mut allow)).collect();
        format!("[{}]", xs.join(", "))
    }

    fn emit_some(&mut self) {
        if !self.allow_emit || self.vars.is_empty() {
            return;
        }
        let n = 1 + self.rng.below(3);
        let xs: Vec<String> = (0..n).filter_map(|_| self.any_var()).collect();
        self.stmts.push(format!("emit({})", xs.join(", ")));
    }

    pub fn emit_all(&mut self) {
        if self.vars.is_empty() {
            return;
        }
        let names: Vec<String> = self.vars.iter().map(|(n, _)| n.clone()).collect();
        for chunk in names.chunks(6) {
            self.stmts.push(format!("emit({})", chunk.join(", ")));
        }
        // Exercise callables once more at the end.
        let funcs: Vec<(String, Kind)> = self
            .vars
            .iter()
            .filter(|(_, k)| matches!(k, Kind::Func0 | Kind::Func1 | Kind::PureFunc1))
            .cloned()
            .collect();
        for (f, k) in funcs {
            match k {
                Kind::Func0 => self.stmts.push(format!("emit({f}())")),
                _ => self.stmts.push(format!("emit({f}(3))")),
            }
        }
    }

    /// Bind names that come from `load()` of other modules.
    pub fn add_loaded(&mut self, module: &str, names: &[(String, Kind)]) {
        if names.is_empty() {
            return;
        }
        let mut parts = Vec::new();
        for (n, k) in names {
            let local = self.fresh("ld");
            parts.push(format!("{local} = \"{n}\""));
            // A loaded function with side effects on its own (now frozen) state fails when called.
            let k2 = if matches!(k, Kind::Func1 | Kind::Func0) { Kind::Other } else { *k };
            self.bind(&local, k2);
            self.frozen.push(local.clone());
        }
        self.stmts.push(format!("load(\"{module}\", {})", parts.join(", ")));
    }

    /// Generate one more top-level statement (and maybe an observation after it).
    pub fn step(&mut self) {
        let before = self.stmts.len();
        for _ in 0..8 {
            self.one();
            if self.stmts.len() > before {
                break;
            }
        }
        if self.rng.chance(self.feat.emit_rate, 100) {
            self.emit_some();
        }
    }

    fn one(&mut self) {
        let r = self.rng.below(60);
        match r {
            0 | 1 => {
                let n = self.fresh("i");
                let e = self.int_expr();
                self.stmts.push(format!("{n} = {e}"));
                self.bind(&n, Kind::Int);
            }
            2 | 3 if self.feat.strings => {
                let n = self.fresh("s");
                let e = self.str_expr();
                self.stmts.push(format!("{n} = {e}"));
                self.bind(&n, Kind::Str);
            }
            4 | 5 | 6 => {
                let n = self.fresh("l");
                let e = self.list_lit();
                self.stmts.push(format!("{n} = {e}"));
                self.bind(&n, Kind::List);
            }
            7 | 8 => {
                let n = self.fresh("d");
                let cnt = self.rng.below(5);
                let mut allow = true;
                let mut items = Vec::new();
                for _ in 0..cnt {
                    let k = self.key();
                    let v = self.elem(&mut allow);
                    items.push(format!("({k}, {v})"));
                }
                // Duplicate literal keys are a static error in dict literals: build via dict().
                self.stmts.push(format!("{n} = dict([{}])", items.join(", ")));
                self.bind(&n, Kind::Dict);
            }
            9 if self.feat.sets => {
                let n = self.fresh("st");
                let cnt = self.rng.below(5);
                let ks: Vec<String> = (0..cnt).map(|_| self.key()).collect();
                self.stmts.push(format!("{n} = set([{}])", ks.join(", ")));
                self.bind(&n, Kind::Set);
            }
            10 => {
                let n = self.fresh("t");
                let mut allow = true;
                let a = self.elem(&mut allow);
                let b = self.elem(&mut allow);
                self.stmts.push(format!("{n} = ({a}, {b})"));
                self.bind(&n, Kind::Tuple);
            }
            11 if self.feat.structs => {
                let n = self.fresh("sr");
                let mut allow = true;
                let a = self.elem(&mut allow);
                let b = self.elem(&mut allow);
                let c = self.int_lit();
                self.stmts.push(format!("{n} = struct(a = {a}, b = {b}, c = {c})"));
                self.bind(&n, Kind::Struct);
            }
            12 if self.feat.records => {
                if self.rng.bool() {
                    let t = self.fresh("Rec");
                    self.stmts.push(format!(
                        "{t} = record(x = int, y = field(str, \"dflt\"), z = field(typing.Any, None))"
                    ));
                    self.bind(&t, Kind::RecordType);
                } else {
                    let t = self.fresh("En");
                    self.stmts.push(format!("{t} = enum(\"red\", \"green\", \"blue\")"));
                    self.bind(&t, Kind::EnumType);
                }
            }
            13 if self.feat.records => {
                if let Some(t) = self.of_kind(Kind::RecordType) {
                    let n = self.fresh("r");
                    let mut allow = true;
                    let z = self.elem(&mut allow);
                    let x = self.rng.range(0, 50);
                    if self.rng.bool() {
                        self.stmts.push(format!("{n} = {t}(x = {x}, z = {z})"));
                    } else {
                        let y = self.str_lit();
                        self.stmts.push(format!("{n} = {t}(x = {x}, y = {y}, z = {z})"));
                    }
                    self.bind(&n, Kind::Other);
                } else if let Some(t) = self.of_kind(Kind::EnumType) {
                    let n = self.fresh("e");
                    let c = *self.rng.pick(&["red", "green", "blue"]);
                    self.stmts.push(format!("{n} = {t}(\"{c}\")"));
                    self.bind(&n, Kind::Other);
                }
            }
            14 | 15 if self.feat.mutation => {
                if let Some(l) = self.of_kind_mut(Kind::List) {
                    let mut allow = true;
                    let e = self.elem(&mut allow);
                    let s = match self.rng.below(8) {
                        0 => format!("{l}.append({e})"),
                        1 => format!("{l}.extend([{e}, {}])", self.scalar()),
                        2 => format!("{l}.insert(0, {e})"),
                        3 => format!("{l}.insert(len({l}), {e})"),
                        4 => format!("{l} += [{e}]"),
                        5 => format!("_ = {l}.pop() if {l} else None"),
                        6 => format!("{l}[len({l}) // 2] = {e}"),
                        _ => format!("{l}.append({e})"),
                    };
                    self.stmts.push(s);
                }
            }
            16 if self.feat.mutation => {
                if let Some(d) = self.of_kind_mut(Kind::Dict) {
                    let k = self.key();
                    let mut allow = true;
                    let e = self.elem(&mut allow);
                    let s = match self.rng.below(5) {
                        0 => format!("{d}[{k}] = {e}"),
                        1 => format!("{d}.update([({k}, {e})])"),
                        2 => format!("_ = {d}.setdefault({k}, {e})"),
                        3 => format!("_ = {d}.pop({k}, None)"),
                        _ => format!("{d} |= {{{k}: {e}}}"),
                    };
                    self.stmts.push(s);
                }
            }
            17 if self.feat.mutation && self.feat.sets => {
                if let Some(s) = self.of_kind_mut(Kind::Set) {
                    let k = self.key();
                    let st = match self.rng.below(3) {
                        0 => format!("{s}.add({k})"),
                        1 => format!("{s}.discard({k})"),
                        _ => format!("{s}.update([{k}])"),
                    };
                    self.stmts.push(st);
                }
            }
            18 if self.feat.cycles && self.feat.mutation => {
                match self.rng.below(3) {
                    0 => {
                        if let Some(l) = self.of_kind_mut(Kind::List) {
                            self.stmts.push(format!("{l}.append({l})"));
                        }
                    }
                    1 => {
                        if let Some(d) = self.of_kind_mut(Kind::Dict) {
                            self.stmts.push(format!("{d}[\"self\"] = {d}"));
                        }
                    }
                    _ => {
                        if let (Some(l), Some(d)) = (self.of_kind_mut(Kind::List), self.of_kind_mut(Kind::Dict)) {
                            self.stmts.push(format!("{l}.append({d})"));
                            self.stmts.push(format!("{d}[\"back\"] = {l}"));
                        }
                    }
                }
            }
            19 => {
                // alias / copy
                if let Some(l) = self.of_kind(Kind::List) {
                    let n = self.fresh("l");
                    if self.rng.bool() {
                        self.stmts.push(format!("{n} = {l}"));
                        if self.frozen.contains(&l) {
                            self.frozen.push(n.clone());
                        }
                    } else {
                        let sc = self.scalar();
                        self.stmts.push(format!("{n} = list({l}) + [{sc}]"));
                    }
                    self.bind(&n, Kind::List);
                }
            }
            20 | 21 if self.feat.comprehensions => {
                if let Some(l) = self.of_kind(Kind::List) {
                    match self.rng.below(4) {
                        0 => {
                            let n = self.fresh("l");
                            self.stmts.push(format!("{n} = [(x, type(x)) for x in {l} if x != None]"));
                            self.bind(&n, Kind::List);
                        }
                        1 => {
                            let n = self.fresh("d");
                            self.stmts.push(format!("{n} = {{str(i): x for i, x in enumerate({l})}}"));
                            self.bind(&n, Kind::Dict);
                        }
                        2 => {
                            let n = self.fresh("l");
                            self.stmts.push(format!("{n} = [[y, x] for x in {l} for y in range(2)]"));
                            self.bind(&n, Kind::List);
                        }
                        _ => {
                            let n = self.fresh("l");
                            self.stmts.push(format!("{n} = [x for x in reversed({l})][:3]"));
                            self.bind(&n, Kind::List);
                        }
                    }
                }
            }
            22 | 23 if self.feat.toplevel_loops => {
                if let Some(l) = self.of_kind(Kind::List) {
                    let acc = self.fresh("l");
                    self.stmts.push(format!("{acc} = []"));
                    self.bind(&acc, Kind::List);
                    let body = match self.rng.below(4) {
                        0 => format!("for x in {l}:\n    {acc}.append([x])"),
                        1 => format!("for i, x in enumerate({l}):\n    if i == 2:\n        break\n    {acc}.append((i, x))"),
                        2 => format!("for x in {l}:\n    if type(x) == \"int\":\n        continue\n    {acc}.append(x)\n    emit(x)"),
                        _ => format!("for x in range(3):\n    for y in {l}:\n        {acc}.append((x, y))"),
                    };
                    self.stmts.push(body);
                }
            }
            24 => {
                // top-level if
                let c = self.int_expr();
                let n = self.fresh("l");
                let sc = self.scalar();
                self.stmts.push(format!(
                    "if ({c}) % 2 == 0:\n    {n} = [\"even\", {sc}]\nelse:\n    {n} = [\"odd\"]"
                ));
                self.bind(&n, Kind::List);
            }
            25 | 26 => {
                // simple defs
                let f = self.fresh("f");
                let cap = self.any_var();
                let variant = self.rng.below(10);
                let pure = (1..=4).contains(&variant) || variant == 7 || variant == 8;
                let lv = self.of_kind(Kind::List);
                let lit = self.list_lit();
                let body = match variant {
                    0 => format!("def {f}(a, b = []):\n    b.append(a)\n    return len(b)"),
                    1 => match cap {
                        Some(c) => format!("def {f}(x):\n    return [x, {c}]"),
                        None => format!("def {f}(x):\n    return [x]"),
                    },
                    2 => format!("def {f}(n):\n    if n <= 0:\n        return []\n    return [n] + {f}(n - 1)"),
                    3 => format!("def {f}(x, *args, **kwargs):\n    return (x, args, kwargs)"),
                    4 => format!(
                        "def {f}(x):\n    acc = {{}}\n    for i in range(4):\n        if i == x:\n            continue\n        acc[i] = [i] * i\n    return acc"
                    ),
                    // Keyword-only parameters (after `*` / `*args`) with heap-allocated defaults;
                    // a default may be the very object a module variable holds.
                    6 => format!("def {f}(x, *, k = {lit}):\n    k.append(x)\n    return k"),
                    7 => format!("def {f}(x, *args, k = {{\"a\": {lit}}}, **kw):\n    return [x, args, k, kw]"),
                    8 => match lv {
                        Some(l) => format!("def {f}(x, *, k = {l}, j = ({l}, \"t\" * 3)):\n    return [x, k, j]"),
                        None => format!("def {f}(x, *, k = ({lit}, \"s\" + str(1))):\n    return [x, k]"),
                    },
                    9 => format!("def {f}(x, y = {lit}, *rest, z = [{lit}]):\n    z.append(x)\n    return [y, rest, z]"),
                    _ => match cap {
                        Some(c) => format!("def {f}(x, d = {{\"k\": [{c}]}}):\n    d[\"k\"].append(x)\n    return d"),
                        None => format!("def {f}(x, d = {{\"k\": []}}):\n    d[\"k\"].append(x)\n    return d"),
                    },
                };
                self.stmts.push(body);
                self.bind(&f, if pure { Kind::PureFunc1 } else { Kind::Func1 });
            }
            27 | 28 if self.feat.closures => {
                let mk = self.fresh("mk");
                let f = self.fresh("cl");
                let init = self.list_lit();
                match self.rng.below(3) {
                    0 => {
                        self.stmts.push(format!(
                            "def {mk}():\n    c = {init}\n    def inner(x):\n        c.append(x)\n        return c\n    return inner"
                        ));
                        self.stmts.push(format!("{f} = {mk}()"));
                        self.bind(&f, Kind::Func1);
                    }
                    1 => {
                        self.stmts.push(format!(
                            "def {mk}(seed):\n    state = {{\"n\": seed, \"log\": {init}}}\n    def bump():\n        state[\"n\"] = state[\"n\"] + 1\n        state[\"log\"].append(state[\"n\"])\n        return state\n    return bump"
                        ));
                        self.stmts.push(format!("{f} = {mk}({})", self.rng.range(0, 9)));
                        self.bind(&f, Kind::Func0);
                    }
                    _ => {
                        self.stmts.push(format!(
                            "def {mk}(k):\n    def outer(x):\n        def innermost(y):\n            return [k, x, y]\n        return [innermost(z) for z in range(2)]\n    return outer"
                        ));
                        self.stmts.push(format!("{f} = {mk}({init})"));
                        self.bind(&f, Kind::PureFunc1);
                    }
                }
            }
            29 => {
                // call a function and keep the result
                if let Some(f) = self.of_kind(Kind::Func1) {
                    let n = self.fresh("o");
                    let a = self.rng.range(0, 4);
                    self.stmts.push(format!("{n} = {f}({a})"));
                    self.bind(&n, Kind::Other);
                } else if let Some(f) = self.of_kind(Kind::Func0) {
                    let n = self.fresh("o");
                    self.stmts.push(format!("{n} = {f}()"));
                    self.bind(&n, Kind::Other);
                }
            }
            30 => {
                let n = self.fresh("lam");
                match self.of_kind(Kind::Int) {
                    Some(i) => self.stmts.push(format!("{n} = lambda x: [x, {i}, x * 2]")),
                    None => self.stmts.push(format!("{n} = lambda x: [x, x * 2]")),
                }
                self.bind(&n, Kind::PureFunc1);
            }
            31 if self.feat.natives => {
                // native consumers and callbacks
                if let Some(l) = self.of_kind(Kind::List) {
                    let n = self.fresh("o");
                    let s = match self.rng.below(6) {
                        0 => format!("{n} = sorted([repr(x) for x in {l}])"),
                        1 => format!("{n} = list(map(lambda x: [x], {l}))"),
                        2 => format!("{n} = list(filter(lambda x: x != None, {l}))"),
                        3 => format!("{n} = list(zip({l}, range(10)))"),
                        4 => format!("{n} = sorted({l}, key = lambda x: repr(x))"),
                        _ => format!("{n} = (any({l}), all({l}), len({l}))"),
                    };
                    self.stmts.push(s);
                    self.bind(&n, Kind::Other);
                }
            }
            32 if self.feat.natives => {
                // bound methods and partial
                if let Some(l) = self.of_kind(Kind::List) {
                    let n = self.fresh("bm");
                    if self.rng.bool() {
                        self.stmts.push(format!("{n} = {l}.append"));
                        self.bind(&n, Kind::Func1);
                    } else if let Some(f) = self.of_kind(Kind::Func1) {
                        self.stmts.push(format!("{n} = partial({f}, {})", self.rng.range(0, 3)));
                        self.bind(&n, Kind::Func0);
                    }
                }
            }
            33 if self.feat.host && self.allow_host => {
                let n = self.fresh("h");
                match self.rng.below(6) {
                    0 | 4 | 5 => {
                        // The same few strings are interned again and again (before and after
                        // collections), also built at run time so that they are not compile-time constants.
                        let s = match self.rng.below(3) {
                            0 => self.str_lit(),
                            1 => format!("\"in\" + \"tern{}\"", self.rng.below(3)),
                            _ => format!("\"k%d\" % {}", self.rng.below(4)),
                        };
                        self.stmts.push(format!("{n} = intern({s})"));
                        self.bind(&n, Kind::Str);
                        if let Some(prev) = self.of_kind(Kind::Str) {
                            self.stmts.push(format!("emit({n} == {prev}, {{{n}: 1}}.get({prev}), intern({n}), len(intern({prev} + \"\")))"));
                        }
                    }
                    1 => {
                        let mut allow = true;
                        let a = self.elem(&mut allow);
                        let b = self.elem(&mut allow);
                        self.stmts.push(format!("{n} = host_list({a}, {b})"));
                        self.bind(&n, Kind::List);
                    }
                    2 => {
                        if let Some(v) = self.any_var() {
                            self.stmts.push(format!("set_extra([{v}, \"extra\"])"));
                        }
                    }
                    _ => {
                        self.stmts.push(format!("{n} = get_extra()"));
                        self.bind(&n, Kind::Other);
                    }
                }
            }
            34 => {
                let n = self.fresh("rg");
                self.stmts.push(format!("{n} = range({}, {})", self.rng.range(0, 3), self.rng.range(3, 9)));
                self.bind(&n, Kind::Other);
            }
            35 if self.feat.strings => {
                if let Some(s) = self.of_kind(Kind::Str) {
                    let n = self.fresh("l");
                    let e = match self.rng.below(3) {
                        0 => format!("{s}.split(\",\")"),
                        1 => format!("list({s}.elems())[:5]"),
                        _ => format!("[{s}[i:i + 2] for i in range(min(len({s}), 4))]"),
                    };
                    self.stmts.push(format!("{n} = {e}"));
                    self.bind(&n, Kind::List);
                }
            }
            36 if self.feat.structs => {
                if let Some(s) = self.of_kind(Kind::Struct) {
                    let n = self.fresh("o");
                    self.stmts.push(format!("{n} = [{s}.a, {s}.b, dir({s})]"));
                    self.bind(&n, Kind::List);
                }
            }
            37 => {
                // rebind an existing name (old value may become garbage)
                if let Some(l) = self.of_kind(Kind::List) {
                    let e = self.list_lit();
                    self.stmts.push(format!("{l} = {e}"));
                }
            }
            38 => {
                // garbage: allocate and drop
                let n = self.fresh("g");
                self.stmts.push(format!("{n} = [[i, str(i)] for i in range({})]", self.rng.range(5, 60)));
                self.stmts.push(format!("{n} = None"));
                self.bind(&n, Kind::Other);
            }
            40 => {
                // dict beyond the hash-index threshold, then shrunk again
                let n = self.fresh("d");
                self.stmts.push(format!("{n} = {{(\"k%d\" % i): [i, str(i)] for i in range({})}}", 17 + self.rng.below(20)));
                self.bind(&n, Kind::Dict);
                if self.rng.bool() {
                    self.stmts.push(format!("_ = [{n}.pop(\"k%d\" % i) for i in range({})]", 3 + self.rng.below(12)));
                }
            }
            41 => {
                // list whose capacity exceeds its length
                let n = self.fresh("l");
                self.stmts.push(format!("{n} = [[i] for i in range({})]", 20 + self.rng.below(30)));
                self.stmts.push(format!("_ = [{n}.pop() for _i in range({})]", 10 + self.rng.below(10)));
                self.bind(&n, Kind::List);
            }
            42 if self.feat.structs => {
                let n = self.fresh("sr");
                let mut allow = true;
                let fields: Vec<String> = (0..(6 + self.rng.below(8))).map(|i| format!("f{i} = {}", self.elem(&mut allow))).collect();
                self.stmts.push(format!("{n} = struct({})", fields.join(", ")));
                self.bind(&n, Kind::Other);
            }
            43 if self.feat.natives => {
                if let Some(f) = self.of_kind(Kind::Func1) {
                    let n = self.fresh("pt");
                    let mut allow = true;
                    let e = self.elem(&mut allow);
                    self.stmts.push(format!("def {n}_t(a, b = None, c = None):\n    return [a, b, c]"));
                    self.stmts.push(format!("{n} = partial({n}_t, [{e}], c = {{\"k\": {f}}})"));
                    self.bind(&n, Kind::Func0);
                }
            }
            44 => {
                // bound method whose receiver is reachable only through it
                let n = self.fresh("bm");
                let e = self.list_lit();
                match self.rng.below(3) {
                    0 => {
                        self.stmts.push(format!("{n} = ({e} + [\"recv\"]).append"));
                        self.bind(&n, Kind::Func1);
                    }
                    1 => {
                        self.stmts.push(format!("{n} = (\"recv-\" + str({})).upper", self.rng.below(9)));
                        self.bind(&n, Kind::Func0);
                    }
                    _ => {
                        self.stmts.push(format!("{n} = dict([(\"r\", {e})]).get"));
                        self.bind(&n, Kind::Other);
                        self.stmts.push(format!("emit({n}(\"r\"))"));
                    }
                }
            }
            45 => {
                let n = self.fresh("t");
                let mut allow = true;
                let e = self.elem(&mut allow);
                match self.rng.below(3) {
                    0 => self.stmts.push(format!("{n} = ()")),
                    1 => self.stmts.push(format!("{n} = ({e},)")),
                    _ => self.stmts.push(format!("{n} = ({e}, ({e},), ())")),
                }
                self.bind(&n, Kind::Tuple);
            }
            46 if self.feat.strings => {
                let n = self.fresh("s");
                self.stmts.push(format!("{n} = (\"long-\" * {}) + str({})", 20 + self.rng.below(80), self.rng.below(1000)));
                self.bind(&n, Kind::Str);
            }
            47 if self.feat.records => {
                // record / enum types reachable only through their instances
                // (a type must be bound to a global when it is first used; the global is re-bound afterwards)
                let n = self.fresh("r");
                let tmp = self.fresh("Tt");
                if self.rng.bool() {
                    self.stmts.push(format!("{tmp} = record(p = int, q = field(list, []))"));
                    self.stmts.push(format!("{n} = {tmp}(p = {}, q = [{}])", self.rng.below(50), self.rng.below(9)));
                } else {
                    self.stmts.push(format!("{tmp} = enum(\"north\", \"south\")"));
                    self.stmts.push(format!("{n} = {tmp}(\"south\")"));
                }
                self.stmts.push(format!("{tmp} = None"));
                self.bind(&n, Kind::Other);
            }
            48 if self.feat.closures => {
                // a closure reachable only through another closure
                let mk = self.fresh("mk");
                let f = self.fresh("cl");
                let init = self.list_lit();
                self.stmts.push(format!(
                    "def {mk}():\n    c = {init}\n    def a():\n        return c\n    def b():\n        return a\n    return b"
                ));
                self.stmts.push(format!("{f} = {mk}()"));
                self.bind(&f, Kind::Func0);
                self.stmts.push(format!("emit({f}()())"));
            }
            49 if self.feat.sets => {
                let n = self.fresh("st");
                self.stmts.push(format!("{n} = set([(i, str(i)) for i in range({})])", 17 + self.rng.below(10)));
                self.bind(&n, Kind::Set);
            }
            50 | 51 if self.feat.types => {
                // Type values (they can hold record / enum types), used by isinstance.
                let n = self.fresh("ty");
                let rt = self.of_kind(Kind::RecordType);
                let e = match (self.rng.below(7), rt) {
                    (0, _) => "list[int]".to_owned(),
                    (1, _) => "dict[str, list[int | None]]".to_owned(),
                    (2, _) => "typing.Callable[[int], str]".to_owned(),
                    (3, _) => "tuple[int, ...]".to_owned(),
                    (4, Some(r)) => format!("list[{r}] | None"),
                    (5, Some(r)) => format!("dict[str, {r}]"),
                    _ => "int | str | None".to_owned(),
                };
                self.stmts.push(format!("{n} = {e}"));
                self.bind(&n, Kind::Other);
                if let Some(v) = self.any_var() {
                    let o = self.fresh("o");
                    self.stmts.push(format!("{o} = [isinstance({v}, {n}), isinstance([1, 2], {n}), isinstance(None, {n})]"));
                    self.bind(&o, Kind::List);
                }
            }
            52 if self.feat.types && self.feat.records => {
                // Record fields whose defaults are heap values (shared by every instance using them).
                let t = self.fresh("Rd");
                let lit = self.list_lit();
                let cap = self.of_kind(Kind::List);
                let d2 = match cap {
                    Some(c) => format!("{{\"k\": {c}}}"),
                    None => "{\"k\": [1]}".to_owned(),
                };
                self.stmts.push(format!("{t} = record(a = field(list, {lit}), b = field(dict, {d2}), c = field(typing.Any, ({lit}, \"s\" * 3)), n = int)"));
                self.bind(&t, Kind::Other);
                let r1 = self.fresh("r");
                let r2 = self.fresh("r");
                self.stmts.push(format!("{r1} = {t}(n = 1)"));
                self.stmts.push(format!("{r2} = {t}(n = 2, a = [7])"));
                self.bind(&r1, Kind::Other);
                self.bind(&r2, Kind::Other);
                let o = self.fresh("o");
                self.stmts.push(format!("{o} = [{r1}.a, {r1}.b, {r2}.c, {r1} == {r2}]"));
                self.bind(&o, Kind::List);
            }
            53 if self.feat.types => {
                let n = self.fresh("ns");
                let a = self.any_var().unwrap_or_else(|| "None".to_owned());
                let lit = self.list_lit();
                self.stmts.push(format!("{n} = namespace(a = {a}, b = {lit}, f = lambda x: [x, {lit}])"));
                self.bind(&n, Kind::Other);
                let o = self.fresh("o");
                self.stmts.push(format!("{o} = [{n}.b, {n}.f(1), dir({n})]"));
                self.bind(&o, Kind::List);
            }
            54 if self.feat.types => {
                let n = self.fresh("fl");
                let i = self.rng.range(1, 40);
                self.stmts.push(format!("{n} = [{i} * 1.5, float({i}) / 3, {i} // 2.0, float(\"inf\"), 1e300 * 10, [0.1 + 0.2]]"));
                self.bind(&n, Kind::List);
            }
            55 if self.feat.types => {
                let n = self.fresh("rg");
                let (a, b, c) = (self.rng.range(0, 9), self.rng.range(10, 80), self.rng.range(1, 7));
                self.stmts.push(format!("{n} = [range({a}, {b}, {c}), range({b}, {a}, -{c}), range({a})]"));
                self.bind(&n, Kind::List);
                let o = self.fresh("o");
                self.stmts.push(format!("{o} = [list({n}[0])[:3], {n}[1][1], len({n}[2]), 5 in {n}[0], \"abc\".elems(), list(\"añ😀\".codepoints())]"));
                self.bind(&o, Kind::List);
            }
            56 | 57 if self.feat.types => {
                // Type-annotated defs: parameter and return checks hold compiled types.
                let f = self.fresh("tf");
                let lit = self.list_lit();
                let rt = self.of_kind(Kind::RecordType);
                match (self.rng.below(3), rt) {
                    (0, _) => self.stmts.push(format!("def {f}(x: int | str, y: list = {lit}) -> list:\n    return [x] + y")),
                    (1, Some(r)) => self.stmts.push(format!("def {f}(x, r: {r} | None = None) -> list[typing.Any]:\n    return [x, r]")),
                    _ => self.stmts.push(format!("def {f}(x: typing.Any, *a, k: dict[str, list] = {{\"d\": {lit}}}, **kw) -> tuple:\n    return (x, a, k, kw)")),
                }
                self.bind(&f, Kind::PureFunc1);
            }
            58 | 59 if self.feat.structs || self.feat.records => {
                // Names computed at run time (strings on the unfrozen heap, not constants): struct
                // fields, enum members, record fields, namespace members.
                let nl = self.fresh("nm");
                let k = self.rng.range(2, 6);
                self.stmts.push(format!("{nl} = []"));
                self.stmts.push(format!("_ = [{nl}.append(\"c\" + str(len({nl})) + \"_\" + str(q)) for q in range({k})]"));
                self.bind(&nl, Kind::List);
                match self.rng.below(4) {
                    0 => {
                        let n = self.fresh("sc");
                        let lit = self.list_lit();
                        self.stmts.push(format!("{n} = struct(kind = {lit}, **{{x: [x, len(x)] for x in {nl}}})"));
                        self.bind(&n, Kind::Other);
                        let o = self.fresh("o");
                        self.stmts.push(format!("{o} = [dir({n}), getattr({n}, {nl}[0]), hasattr({n}, {nl}[-1]), {n}]"));
                        self.bind(&o, Kind::List);
                    }
                    1 => {
                        let t = self.fresh("Ec");
                        self.stmts.push(format!("{t} = enum(*{nl})"));
                        self.bind(&t, Kind::Other);
                        let o = self.fresh("o");
                        self.stmts.push(format!("{o} = [{t}({nl}[0]), {t}({nl}[-1]).index, [m for m in {t}], repr({t}), dir({t})[:3], {t}.values() if hasattr({t}, \"values\") else None]"));
                        self.bind(&o, Kind::List);
                    }
                    2 => {
                        let t = self.fresh("Rc");
                        self.stmts.push(format!("{t} = record(**{{x: field(typing.Any, [x]) for x in {nl}}})"));
                        self.bind(&t, Kind::Other);
                        let r = self.fresh("r");
                        self.stmts.push(format!("{r} = {t}(**{{{nl}[0]: 1}})"));
                        self.bind(&r, Kind::Other);
                        let o = self.fresh("o");
                        self.stmts.push(format!("{o} = [getattr({r}, {nl}[0]), getattr({r}, {nl}[-1]), dir({r}), repr({t})]"));
                        self.bind(&o, Kind::List);
                    }
                    _ => {
                        let n = self.fresh("nsc");
                        self.stmts.push(format!("{n} = namespace(**{{x: (x, [x]) for x in {nl}}})"));
                        self.bind(&n, Kind::Other);
                        let o = self.fresh("o");
                        self.stmts.push(format!("{o} = [dir({n}), getattr({n}, {nl}[0]), {n}]"));
                        self.bind(&o, Kind::List);
                    }
                }
            }
            _ => {
                self.emit_some();
            }
        }
    }
}

/// Generate a whole module of about `n` steps.
pub fn gen_module(rng: &mut Rng, feat: Features, prefix: &str, n: usize, loaded: &[(String, Vec<(String, Kind)>)], allow_host: bool) -> (Vec<String>, Vec<(String, Kind)>) {
    let mut g = Gen::new(rng, feat, prefix);
    g.allow_host = allow_host;
    for (m, names) in loaded {
        g.add_loaded(m, names);
    }
    for _ in 0..n {
        g.step();
    }
    g.emit_all();
    let exports: Vec<(String, Kind)> = g
        .vars
        .iter()
        .filter(|(name, _)| !name.contains("ld"))
        .cloned()
        .collect();
    (g.stmts.clone(), exports)
}
