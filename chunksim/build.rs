//! Copies the *current* sources of starlark's chunk allocator out of the repository and rewrites
//! them mechanically so that they run under shuttle's controlled scheduler:
//!   x.fetch_sub(..) / load / store / ... -> x.sp().fetch_sub(..)   (a scheduling point before every atomic access)
//!   thread_local!      -> shuttle::thread_local!  (per simulated thread)
//!   std::alloc::{alloc, dealloc} -> crate::track  (tracking allocator: quarantine + poison on free)
//! Nothing else is changed; the module tree is re-created in main.rs so `crate::` paths resolve.
use std::fs;
use std::path::PathBuf;

fn main() {
    let repo = std::env::var("CHUNKSIM_REPO").unwrap_or_else(|_| "/repo".to_owned());
    println!("cargo:rerun-if-env-changed=CHUNKSIM_REPO");
    let out = PathBuf::from(std::env::var("OUT_DIR").unwrap());
    let base = format!("{repo}/starlark/src");
    let files = [
        ("values/layout/aligned_size.rs", "aligned_size.rs"),
        ("values/layout/value_alloc_size.rs", "value_alloc_size.rs"),
        ("values/layout/heap/allocator/api.rs", "api.rs"),
        ("values/layout/heap/allocator/alloc/allocator.rs", "allocator.rs"),
        ("values/layout/heap/allocator/alloc/chain.rs", "chain.rs"),
        ("values/layout/heap/allocator/alloc/chunk.rs", "chunk.rs"),
        ("values/layout/heap/allocator/alloc/chunk_part.rs", "chunk_part.rs"),
        ("values/layout/heap/allocator/alloc/per_thread.rs", "per_thread.rs"),
        ("util/rtabort.rs", "rtabort.rs"),
    ];
    for (src, dst) in files {
        let p = format!("{base}/{src}");
        println!("cargo:rerun-if-changed={p}");
        let text = fs::read_to_string(&p).unwrap_or_else(|e| panic!("cannot read {p}: {e}"));
        let mut outt = String::new();
        for line in text.lines() {
            // inner doc comments are not allowed in include!d files
            if line.trim_start().starts_with("//!") {
                continue;
            }
            // A scheduling point in front of every atomic operation (`.sp()` yields to the scheduler and
            // returns the atomic itself), so that the interleavings of individual loads, stores and
            // read-modify-writes are explored; the atomics themselves stay std's.
            let mut l = line.replace("use std::alloc;", "use crate::track as alloc;");
            for m in if dst == "chunk.rs" { &[".fetch_add(", ".fetch_sub(", ".load(", ".store(", ".swap(", ".compare_exchange(", ".compare_exchange_weak(", ".fetch_update("][..] } else { &[][..] } {
                l = l.replace(m, &format!(".sp(){m}"));
            }
            if l.starts_with("use std::sync::atomic;") {
                l.push_str("\nuse crate::Sp as _;");
            }
            if dst == "per_thread.rs" {
                l = l.replace("thread_local! {", "shuttle::thread_local! {");
                if l.starts_with("use std::cell::RefCell;") {
                    l.push_str("\nuse crate::WithBorrowMut as _;");
                }
            }
            outt.push_str(&l);
            outt.push('\n');
        }
        fs::write(out.join(dst), outt).unwrap();
    }
}
