//! C20 micro-world: the *real* chunk allocator sources of starlark (copied and mechanically
//! rewritten by build.rs) under shuttle's seeded scheduler. Every atomic access of the chunk
//! reference counts is a scheduling point here, which the cooperative scheduler of the main
//! simulator cannot offer (it only switches at hooked sites). Simulated threads build arenas,
//! fill them with self-describing patterns, hand them to other threads, and drop them; the
//! tracking allocator quarantines and poisons freed chunks, so a chunk freed while still in use
//! or handed to two arenas shows up as a pattern mismatch - deterministically, for a given seed.
#![allow(dead_code, unused_imports, unexpected_cfgs, clippy::all)]

mod util {
    pub(crate) mod rtabort {
        include!(concat!(env!("OUT_DIR"), "/rtabort.rs"));
    }
}

mod values {
    pub(crate) mod layout {
        pub(crate) mod aligned_size {
            include!(concat!(env!("OUT_DIR"), "/aligned_size.rs"));
        }
        pub(crate) mod value_alloc_size {
            include!(concat!(env!("OUT_DIR"), "/value_alloc_size.rs"));
        }
        pub(crate) mod heap {
            pub(crate) mod repr {
                /// Stub: only the alignment constant is used by the allocator.
                pub(crate) struct AValueHeader;
                impl AValueHeader {
                    pub(crate) const ALIGN: usize = 8;
                }
            }
            pub(crate) mod arena {
                use crate::values::layout::aligned_size::AlignedSize;
                /// Stub of the arena's minimum allocation (header + one word).
                pub(crate) const MIN_ALLOC: AlignedSize = AlignedSize::new_bytes(16);
            }
            pub(crate) mod allocator {
                pub(crate) mod api {
                    include!(concat!(env!("OUT_DIR"), "/api.rs"));
                }
                pub(crate) mod alloc {
                    pub(crate) mod allocator {
                        include!(concat!(env!("OUT_DIR"), "/allocator.rs"));
                    }
                    pub(crate) mod chain {
                        include!(concat!(env!("OUT_DIR"), "/chain.rs"));
                    }
                    pub(crate) mod chunk {
                        include!(concat!(env!("OUT_DIR"), "/chunk.rs"));
                    }
                    pub(crate) mod chunk_part {
                        include!(concat!(env!("OUT_DIR"), "/chunk_part.rs"));
                    }
                    pub(crate) mod per_thread {
                        include!(concat!(env!("OUT_DIR"), "/per_thread.rs"));
                    }
                }
            }
        }
    }
}

/// Scheduling point in front of an atomic operation.
pub(crate) trait Sp {
    fn sp(&self) -> &Self;
}

macro_rules! impl_sp {
    ($($t:ty),*) => { $(impl Sp for $t {
        #[inline]
        fn sp(&self) -> &Self {
            // Only inside a running shuttle execution (not during the teardown after a failure).
            if crate::IN_EXECUTION.load(std::sync::atomic::Ordering::SeqCst) {
                shuttle::thread::yield_now();
            }
            self
        }
    })* };
}
impl_sp!(std::sync::atomic::AtomicU32, std::sync::atomic::AtomicU64, std::sync::atomic::AtomicUsize, std::sync::atomic::AtomicBool);

pub(crate) static IN_EXECUTION: std::sync::atomic::AtomicBool = std::sync::atomic::AtomicBool::new(false);

/// `LocalKey::with_borrow_mut` for shuttle's thread-locals.
pub(crate) trait WithBorrowMut<T> {
    fn with_borrow_mut<R>(&'static self, f: impl FnOnce(&mut T) -> R) -> R;
}

impl<T: 'static> WithBorrowMut<T> for shuttle::thread::LocalKey<std::cell::RefCell<T>> {
    fn with_borrow_mut<R>(&'static self, f: impl FnOnce(&mut T) -> R) -> R {
        self.with(|c| f(&mut c.borrow_mut()))
    }
}

/// Tracking allocator behind the chunk code: freed blocks are poisoned and kept (quarantine) until
/// the end of the execution, so use-after-free reads poison instead of recycled memory.
pub(crate) mod track {
    pub(crate) use std::alloc::Layout;
    pub(crate) use std::alloc::handle_alloc_error;
    use std::collections::BTreeMap;
    use std::sync::Mutex;

    pub(crate) struct State {
        /// ptr -> (layout size, align, freed)
        pub blocks: BTreeMap<usize, (usize, usize, bool)>,
        pub double_free: u64,
        pub bad_free: u64,
        pub allocs: u64,
        pub frees: u64,
    }

    pub(crate) static STATE: Mutex<State> = Mutex::new(State { blocks: BTreeMap::new(), double_free: 0, bad_free: 0, allocs: 0, frees: 0 });

    pub(crate) unsafe fn alloc(layout: Layout) -> *mut u8 {
        let p = unsafe { std::alloc::alloc(layout) };
        let mut s = STATE.lock().unwrap_or_else(|e| e.into_inner());
        s.blocks.insert(p as usize, (layout.size(), layout.align(), false));
        s.allocs += 1;
        p
    }

    pub(crate) unsafe fn dealloc(ptr: *mut u8, layout: Layout) {
        let mut s = STATE.lock().unwrap_or_else(|e| e.into_inner());
        match s.blocks.get_mut(&(ptr as usize)) {
            None => s.bad_free += 1,
            Some(b) if b.2 => s.double_free += 1,
            Some(b) => {
                b.2 = true;
                s.frees += 1;
                // poison, keep mapped
                unsafe {
                    let words = layout.size() / 8;
                    let p = ptr as *mut u64;
                    for i in 0..words {
                        p.add(i).write_volatile(0xDEAD_DEAD_DEAD_DEA8);
                    }
                }
            }
        }
    }

    /// End of one execution: really free everything, return (leaked blocks, double frees, bad frees).
    pub(crate) fn reset() -> (u64, u64, u64) {
        let mut s = STATE.lock().unwrap_or_else(|e| e.into_inner());
        let mut leaked = 0;
        for (p, (size, align, freed)) in std::mem::take(&mut s.blocks) {
            if !freed {
                leaked += 1;
            }
            unsafe { std::alloc::dealloc(p as *mut u8, Layout::from_size_align(size, align).unwrap()) };
        }
        let r = (leaked, s.double_free, s.bad_free);
        s.double_free = 0;
        s.bad_free = 0;
        r
    }
}

use std::sync::Arc;
use std::sync::Mutex;

use shuttle::rand::Rng;
use values::layout::aligned_size::AlignedSize;
use values::layout::heap::allocator::alloc::allocator::ChunkAllocator;
use values::layout::heap::allocator::api::ArenaAllocator;
use values::layout::value_alloc_size::ValueAllocSize;

/// An arena with the allocations made in it: (pointer, words, tag).
struct Arena {
    alloc: ChunkAllocator,
    items: Vec<(usize, usize, u64)>,
    id: u64,
}

unsafe impl Send for Arena {}

static PROBLEMS: Mutex<Vec<String>> = Mutex::new(Vec::new());

fn problem(s: String) {
    let mut p = PROBLEMS.lock().unwrap_or_else(|e| e.into_inner());
    if p.len() < 8 {
        p.push(s);
    }
}

fn build_arena(id: u64, n: usize) -> Arena {
    let mut rng = shuttle::rand::thread_rng();
    let alloc = ChunkAllocator::default();
    let mut items = Vec::new();
    for i in 0..n {
        let words = 2 + rng.gen_range(0..40usize);
        let size = ValueAllocSize::new(AlignedSize::new_bytes(words * 8));
        let p = alloc.alloc(size).as_ptr() as *mut u64;
        let tag = (id << 20) | i as u64;
        unsafe {
            for w in 0..words {
                p.add(w).write_volatile(tag ^ ((w as u64) << 48));
            }
        }
        items.push((p as usize, words, tag));
    }
    Arena { alloc, items, id }
}

fn verify(a: &Arena, when: &str) {
    for (p, words, tag) in &a.items {
        let p = *p as *const u64;
        for w in 0..*words {
            let got = unsafe { p.add(w).read_volatile() };
            let want = tag ^ ((w as u64) << 48);
            if got != want {
                problem(format!("arena {} {when}: word {w} of allocation tag {tag:#x} is {got:#x}, expected {want:#x}", a.id));
                return;
            }
        }
    }
}

fn scenario(threads: usize, rounds: usize) {
    use shuttle::sync::mpsc;
    let mut txs = Vec::new();
    let mut rxs = Vec::new();
    for _ in 0..threads {
        let (tx, rx) = mpsc::channel::<Arena>();
        txs.push(tx);
        rxs.push(Some(rx));
    }
    let mut handles = Vec::new();
    for t in 0..threads {
        let txs: Vec<mpsc::Sender<Arena>> = txs.clone();
        let rx = rxs[t].take().unwrap();
        handles.push(shuttle::thread::spawn(move || {
            let mut rng = shuttle::rand::thread_rng();
            let mut kept: Vec<Arena> = Vec::new();
            for r in 0..rounds {
                let id = ((t as u64) << 8) | r as u64;
                let mut a = build_arena(id, 1 + rng.gen_range(0..6usize));
                if rng.gen_bool(0.7) {
                    a.alloc.finish();
                }
                verify(&a, "after build");
                match rng.gen_range(0..4u32) {
                    0 => {
                        // hand it to another thread, which verifies and drops it there
                        let to = (t + 1 + rng.gen_range(0..threads - 1)) % threads;
                        let _ = txs[to].send(a);
                    }
                    1 => kept.push(a),
                    _ => {
                        verify(&a, "before drop");
                        drop(a);
                    }
                }
                // receive whatever has arrived
                while let Ok(b) = rx.try_recv() {
                    verify(&b, "after transfer");
                    if rng.gen_bool(0.5) {
                        kept.push(b);
                    } else {
                        drop(b);
                    }
                }
                if !kept.is_empty() && rng.gen_bool(0.4) {
                    let i = rng.gen_range(0..kept.len());
                    let k = kept.swap_remove(i);
                    verify(&k, "kept, before drop");
                    drop(k);
                }
            }
            drop(txs);
            for k in kept {
                verify(&k, "kept until the end");
                drop(k);
            }
            // drain late arrivals
            while let Ok(b) = rx.recv() {
                verify(&b, "late transfer");
                drop(b);
            }
        }));
    }
    drop(txs);
    for h in handles {
        let _ = h.join();
    }
}

fn main() {
    // usage: verif-chunksim <seed> <iterations> <threads> <rounds>
    let args: Vec<String> = std::env::args().collect();
    let seed: u64 = args.get(1).and_then(|s| s.parse().ok()).unwrap_or(1);
    let iters: usize = args.get(2).and_then(|s| s.parse().ok()).unwrap_or(100);
    let threads: usize = args.get(3).and_then(|s| s.parse().ok()).unwrap_or(3).max(2);
    let rounds: usize = args.get(4).and_then(|s| s.parse().ok()).unwrap_or(4);
    std::panic::set_hook(Box::new(|_| {
        // After the first failure the execution is torn down: no more scheduling points.
        IN_EXECUTION.store(false, std::sync::atomic::Ordering::SeqCst);
    }));
    let executed = Arc::new(std::sync::atomic::AtomicU64::new(0));
    let leaked_total = Arc::new(std::sync::atomic::AtomicU64::new(0));
    let e2 = executed.clone();
    let l2 = leaked_total.clone();
    let r = std::panic::catch_unwind(std::panic::AssertUnwindSafe(|| {
        let scheduler = shuttle::scheduler::RandomScheduler::new_from_seed(seed, iters);
        let mut cfg = shuttle::Config::new();
        cfg.failure_persistence = shuttle::FailurePersistence::None;
        cfg.max_steps = shuttle::MaxSteps::ContinueAfter(200_000);
        let runner = shuttle::Runner::new(scheduler, cfg);
        runner.run(move || {
            IN_EXECUTION.store(true, std::sync::atomic::Ordering::SeqCst);
            scenario(threads, rounds);
            IN_EXECUTION.store(false, std::sync::atomic::Ordering::SeqCst);
            let (leaked, double_free, bad_free) = track::reset();
            e2.fetch_add(1, std::sync::atomic::Ordering::SeqCst);
            l2.fetch_add(leaked, std::sync::atomic::Ordering::SeqCst);
            if double_free > 0 || bad_free > 0 {
                problem(format!("{double_free} double free(s), {bad_free} free(s) of unknown blocks"));
            }
            let p = PROBLEMS.lock().unwrap_or_else(|e| e.into_inner());
            if !p.is_empty() {
                panic!("chunk invariant violated");
            }
        });
    }));
    let problems = PROBLEMS.lock().unwrap_or_else(|e| e.into_inner()).clone();
    let out = serde_json::json!({
        "executions": executed.load(std::sync::atomic::Ordering::SeqCst),
        "leaked_blocks": leaked_total.load(std::sync::atomic::Ordering::SeqCst),
        "panicked": r.is_err(),
        "problems": problems,
    });
    println!("CHUNKSIM {out}");
}
